"""Models of std / core / num items the kernels call.  Each model is (regex over the *instantiated* callee
path, function(ex, st, frame, path, args, match) -> value).  A model that does not apply returns NotImplemented.
Models decide (ex.decide / ex.concretize) before they mutate anything: a fork re-executes the call.
This table is part of the trusted base of every mirsym obligation; it is validated by the concrete
differential runs against the real build (vlib/mirsym/diff.py)."""
import re

import z3

from .values import (I, Agg, VecObj, Cell, Ref, FnItem, Opaque, UNIT, UNINIT, V, INT_W, SIGNED, FLOATS, binop, unop,
                     cast_int, clone_shallow, deep_clone, ordering, is_int_ty, ite, band, bnot, norm, to_fp, float_bits,
                     cast_int_to_float, cast_float_to_int)

MODELS = []


def model(rx):
    def deco(f):
        MODELS.append((re.compile(rx), f))
        return f
    return deco


def Unsupported(msg):
    from .interp import Unsupported as U
    return U(msg)


def Panic(msg):
    from .interp import PanicExc
    return PanicExc(msg)


def some(v):
    return Agg("enum", [v], name="Option", variant="Some")


NONE = lambda: Agg("enum", [], name="Option", variant="None")


def ok(v):
    return Agg("enum", [v], name="Result", variant="Ok")


def err(v):
    return Agg("enum", [v], name="Result", variant="Err")


def deref_val(r):
    from .interp import navigate
    if not isinstance(r, Ref):
        return r
    return navigate(r.cell.v, r.path)


def seq_of(r):
    """(python list of elements, lo, hi) for a &[T] / &Vec<T> / &mut Vec<T> / &[T;N] / Vec by value"""
    from .interp import seq_elems
    if isinstance(r, VecObj):
        return r.elems, 0, len(r.elems)
    if isinstance(r, Agg) and r.kind == "array":
        return r.fields, 0, len(r.fields)
    if isinstance(r, Ref):
        v = deref_val(r)
        if isinstance(v, Ref):       # &&[T], &Box<[T]>
            return seq_of(v)
        el = seq_elems(v)
        if r.window is not None:
            return el, r.window[0], r.window[1]
        return el, 0, len(el)
    raise Unsupported(f"sequence expected, got {r!r}")


def vec_of(r):
    v = deref_val(r)
    if isinstance(v, Ref):
        v = deref_val(v)
    if not isinstance(v, VecObj):
        raise Unsupported(f"Vec expected, got {v!r}")
    return v


def slice_ref(r, lo=None, hi=None):
    """&[T] over (part of) the sequence r designates"""
    if isinstance(r, Ref):
        v = deref_val(r)
        if isinstance(v, Ref) and not (isinstance(v, Ref) and r.window is not None):
            return slice_ref(v, lo, hi)
        el, l0, h0 = seq_of(r)
        nlo = l0 + (lo or 0)
        nhi = h0 if hi is None else l0 + hi
        return Ref(r.cell, r.path, (nlo, nhi), r.is_str or (isinstance(v, VecObj) and v.is_str), r.mut)
    raise Unsupported(f"slice_ref of {r!r}")


def elem_ref(r, k):
    """&T to element k (relative to window) of the sequence r designates"""
    if isinstance(r, Ref):
        v = deref_val(r)
        if isinstance(v, Ref) and r.window is None:
            return elem_ref(v, k)
        base = r.window[0] if r.window else 0
        return Ref(r.cell, r.path + (("i", base + k),), None, False, r.mut)
    raise Unsupported(f"elem_ref of {r!r}")


def iter_clone(it):
    """copy of the iterator *state* (positions, nested adaptors); the sequences it walks are shared, not copied"""
    c = IterV(it.kind)
    for k, v in it.__dict__.items():
        c.__dict__[k] = iter_clone(v) if isinstance(v, IterV) else v
    return c


class IterV(V):
    """iterator object (mutable, lives in a local)"""

    def __init__(self, kind, **kw):
        self.kind = kind
        self.__dict__.update(kw)

    def __repr__(self):
        return f"Iter<{self.kind}>"


# ------------------------------------------------------------------------------------------------
# panics
# ------------------------------------------------------------------------------------------------
@model(r"^(core|std)::panicking::|^(core::|std::)?panic(_fmt|_display|_cold_display|_explicit|_nounwind|_bounds_check)?(::<.*>)?$|"
       r"::panic_cold_display(::<.*>)?$|::panic_cold_explicit$|(^|::)assert_failed(::<.*>)?$|^core::option::(unwrap_failed|expect_failed)|"
       r"^core::result::unwrap_failed|^std::rt::begin_panic|^(core|std)::panic::|begin_panic|^core::slice::index::slice_|^core::str::slice_error_fail")
def m_panic(ex, st, fr, path, args, m):
    msg = ""
    for a in args:
        if isinstance(a, Ref) and a.is_str:
            try:
                el, lo, hi = seq_of(a)
                msg = bytes(e.v for e in el[lo:hi]).decode(errors="replace")
            except Exception:
                pass
    raise Panic(f"panic: {path.split('::')[-1]} {msg}")


@model(r"^((core|std)::fmt::)?Arguments(?:::<.*>)?::new_(const|v1|v1_formatted)|^(core::fmt::rt::)?Argument(?:::<.*>)?::new_|^std::fmt::Arguments::|^core::fmt::rt::")
def m_fmt(ex, st, fr, path, args, m):
    # formatting is never the subject: an opaque token
    return Opaque("fmt")


@model(r"^(alloc|std)::fmt::format$|^<(?!str as |&str as |std::string::String as |String as )(.*) as (?:std::string::)?ToString>::to_string$")
def m_format(ex, st, fr, path, args, m):
    # the text of messages / number renderings is not modelled: an opaque String of unknown content
    return VecObj([], "u8", 0, is_str=True)


@model(r"^log::|^(std::io::_print|std::io::_eprint)$|__private_api|^log::__private")
def m_log(ex, st, fr, path, args, m):
    if path.endswith("max_level") or "STATIC_MAX_LEVEL" in path:
        return Agg("enum", [], name="LevelFilter", variant="Off")
    return UNIT


# ------------------------------------------------------------------------------------------------
# cmp / mem / convert
# ------------------------------------------------------------------------------------------------
@model(r"^(std|core)::cmp::(min|max)::<(\w+)>$")
def m_minmax(ex, st, fr, path, args, m):
    a, b = args
    if not (isinstance(a, I) and isinstance(b, I)):
        return NotImplemented
    lt = binop("Lt", b, a)        # min: if b < a {b} else {a};  max: if b < a {a} else {b}  (std semantics on ties)
    if m.group(2) == "min":
        return ite(lt, b, a)
    return ite(lt, a, b)


@model(r"^<(\w+) as (?:std::cmp::)?Ord>::(min|max)$")
def m_ord_minmax(ex, st, fr, path, args, m):
    a, b = args
    if not (isinstance(a, I) and isinstance(b, I)):
        return NotImplemented
    lt = binop("Lt", b, a)
    return ite(lt, b, a) if m.group(2) == "min" else ite(lt, a, b)


@model(r"^(std|core)::mem::swap::<")
def m_swap(ex, st, fr, path, args, m):
    a, b = args
    from .interp import Loc
    la, lb = Loc(a.cell, a.path, a.window), Loc(b.cell, b.path, b.window)
    va, vb = ex.read_loc(la), ex.read_loc(lb)
    ex.write_loc(la, vb)
    ex.write_loc(lb, va)
    return UNIT


@model(r"^(std|core)::mem::replace::<")
def m_replace(ex, st, fr, path, args, m):
    from .interp import Loc
    a, nv = args
    la = Loc(a.cell, a.path, a.window)
    old = ex.read_loc(la)
    ex.write_loc(la, nv)
    return old


@model(r"^(std|core)::mem::take::<(.*)>$")
def m_take(ex, st, fr, path, args, m):
    from .interp import Loc
    a, = args
    la = Loc(a.cell, a.path, a.window)
    old = ex.read_loc(la)
    if isinstance(old, VecObj):
        ex.write_loc(la, VecObj([], old.ty, 0, old.is_str))
    elif isinstance(old, Agg) and old.kind == "enum" and old.name == "Option":
        ex.write_loc(la, NONE())
    elif isinstance(old, I):
        ex.write_loc(la, I(old.ty, 0))
    else:
        raise Unsupported("mem::take of " + repr(old))
    return old


@model(r"^(std|core)::mem::(drop|forget)::<")
def m_drop(ex, st, fr, path, args, m):
    return UNIT


@model(r"^<(\w+) as (?:std::convert::)?(Into|From)<(\w+)>>::(into|from)$")
def m_into(ex, st, fr, path, args, m):
    a, = args
    src, dst = (m.group(1), m.group(3)) if m.group(2) == "Into" else (m.group(3), m.group(1))
    if isinstance(a, I) and dst in INT_W and dst not in FLOATS and a.ty not in FLOATS:
        return cast_int(a, dst)      # Into/From between ints exists only for lossless widenings
    if isinstance(a, I) and dst == "f64" and a.ty not in FLOATS:
        return cast_int_to_float(a, "f64")
    if isinstance(a, I) and src == dst:
        return a
    return NotImplemented


@model(r"^<(.*) as (?:std::convert::)?(Into|From)<(.*)>>::(into|from)$")
def m_into_id(ex, st, fr, path, args, m):
    from .srcinfo import norm_type
    if norm_type(m.group(1)) == norm_type(m.group(3)):
        return args[0]
    return NotImplemented


@model(r"^<(.*) as (?:std::convert::)?(TryInto|TryFrom)<(.*)>>::(try_into|try_from)$")
def m_tryinto(ex, st, fr, path, args, m):
    a, = args
    src, dst = (m.group(1), m.group(3)) if m.group(2) == "TryInto" else (m.group(3), m.group(1))
    if isinstance(a, I) and dst in INT_W and dst not in FLOATS:
        r = cast_int(a, dst)
        back_ok = _fits(a, dst)
        if ex.decide(st, back_ok):
            return ok(r)
        return err(Opaque("TryFromIntError"))
    return NotImplemented


def _fits(a, dst):
    """I(bool): value of integer a is representable in dst"""
    w = INT_W[dst]
    lo = -(1 << (w - 1)) if dst in SIGNED else 0
    hi = (1 << (w - 1)) - 1 if dst in SIGNED else (1 << w) - 1
    if a.concrete:
        return I("bool", lo <= a.v <= hi)
    # compare in a width that holds both
    ew = max(a.w, w) + 1
    from .values import _ext
    A = _ext(a, ew)
    return I("bool", z3.And(A >= z3.BitVecVal(lo, ew), A <= z3.BitVecVal(hi, ew)))


@model(r"^<(\w+) as (?:num::|num_traits::)?(?:cast::)?ToPrimitive>::to_(\w+)$")
def m_toprim(ex, st, fr, path, args, m):
    a = deref_val(args[0])
    dst = m.group(2)
    if isinstance(a, Agg) and len(a.fields) == 1:
        a = a.fields[0]
    if not isinstance(a, I):
        return NotImplemented
    if a.ty in FLOATS:
        if dst == "f64":
            return some(a)
        return NotImplemented
    if dst in FLOATS:
        return some(cast_int_to_float(a, dst))
    if ex.decide(st, _fits(a, dst)):
        return some(cast_int(a, dst))
    return NONE()


@model(r"^<(\w+) as (?:num::|num_traits::)?(?:cast::)?NumCast>::from::<(\w+)>$")
def m_numcast(ex, st, fr, path, args, m):
    a, = args
    dst = m.group(1)
    if isinstance(a, I) and a.ty not in FLOATS and dst not in FLOATS:
        if ex.decide(st, _fits(a, dst)):
            return some(cast_int(a, dst))
        return NONE()
    return NotImplemented


@model(r"^<(\w+) as (?:num::|num_traits::)?(?:identities::)?(Zero|One)>::(zero|one)$")
def m_num_zero_one(ex, st, fr, path, args, m):
    ty = m.group(1)
    if ty in INT_W:
        return I(ty, 0 if m.group(3) == "zero" else 1)
    return NotImplemented


@model(r"^(?:num::|num_traits::)?(?:cast::)?cast::<(\w+), (\w+)>$")
def m_numcast_fn(ex, st, fr, path, args, m):
    a, = args
    dst = m.group(2)
    if isinstance(a, I) and a.ty not in FLOATS and dst not in FLOATS:
        if ex.decide(st, _fits(a, dst)):
            return some(cast_int(a, dst))
        return NONE()
    return NotImplemented


@model(r"^<(.*) as (?:std::clone::)?Clone>::clone$")
def m_clone(ex, st, fr, path, args, m):
    v = deref_val(args[0])
    if isinstance(v, IterV):
        return iter_clone(v)
    return deep_clone(v)


@model(r"^<(.*) as (?:std::default::)?Default>::default$")
def m_default(ex, st, fr, path, args, m):
    ty = m.group(1)
    if ty in INT_W:
        return I(ty, 0)
    if ty.startswith(("Vec<", "std::vec::Vec<")):
        return VecObj([], ty)
    if ty in ("String", "std::string::String"):
        return VecObj([], "u8", is_str=True)
    if ty.startswith(("Option<", "std::option::Option<")):
        return NONE()
    return NotImplemented


@model(r"^<(\w+) as (?:std::cmp::)?(PartialOrd|PartialEq|Ord)(?:<\w+>)?>::(lt|le|gt|ge|eq|ne|cmp|partial_cmp)$")
def m_cmp_prim(ex, st, fr, path, args, m):
    a, b = deref_val(args[0]), deref_val(args[1])
    a, b = deref_val(a), deref_val(b)
    if not (isinstance(a, I) and isinstance(b, I)):
        return NotImplemented
    op = m.group(3)
    if op in ("lt", "le", "gt", "ge", "eq", "ne"):
        return binop(op.capitalize(), a, b)
    if a.ty in FLOATS:
        return NotImplemented
    lt = ex.decide(st, binop("Lt", a, b))
    if lt:
        o = ordering(-1)
    else:
        o = ordering(0 if ex.decide(st, binop("Eq", a, b)) else 1)
    return some(o) if op == "partial_cmp" else o


@model(r"^(std|core)::cmp::Ordering::(reverse|is_lt|is_le|is_gt|is_ge|is_eq|is_ne)$")
def m_ordering_methods(ex, st, fr, path, args, m):
    o = args[0]
    k = {"Less": -1, "Equal": 0, "Greater": 1}[o.variant]
    op = m.group(2)
    if op == "reverse":
        return ordering(-k)
    return I("bool", {"is_lt": k < 0, "is_le": k <= 0, "is_gt": k > 0, "is_ge": k >= 0, "is_eq": k == 0, "is_ne": k != 0}[op])


# ------------------------------------------------------------------------------------------------
# integer methods
# ------------------------------------------------------------------------------------------------
@model(r"^core::num::<impl (\w+)>::(overflowing|checked|wrapping|saturating)_(add|sub|mul)$")
def m_int_arith(ex, st, fr, path, args, m):
    a, b = args
    mode, op = m.group(2), m.group(3)
    r = binop({"add": "AddWithOverflow", "sub": "SubWithOverflow", "mul": "MulWithOverflow"}[op], a, b)
    val, ov = r.fields
    if mode == "overflowing":
        return r
    if mode == "wrapping":
        return val
    if mode == "checked":
        if ex.decide(st, ov):
            return NONE()
        return some(val)
    if mode == "saturating":
        if not ex.decide(st, ov):
            return val
        ty = a.ty
        w = a.w
        if ty in SIGNED:
            hi, lo = (1 << (w - 1)) - 1, -(1 << (w - 1))
            if op == "add":
                neg = ex.decide(st, binop("Lt", b, I(ty, 0)))
            elif op == "sub":
                neg = not ex.decide(st, binop("Lt", b, I(ty, 0)))
            else:
                neg = ex.decide(st, binop("Ne", binop("Lt", a, I(ty, 0)), binop("Lt", b, I(ty, 0))))
            return I(ty, lo if neg else hi)
        return I(ty, 0 if op == "sub" else (1 << w) - 1)
    return NotImplemented


@model(r"^core::num::<impl (\w+)>::(wrapping_rem|wrapping_div|checked_div|checked_rem|overflowing_neg|wrapping_neg|checked_neg|abs|unsigned_abs|wrapping_abs|signum|is_negative|is_positive|pow|count_ones|leading_zeros|trailing_zeros|div_ceil|next_power_of_two|is_power_of_two|rotate_left|rotate_right|swap_bytes|to_le|to_be|from_le|from_be|abs_diff|rem_euclid|div_euclid|min_value|max_value)$")
def m_int_misc(ex, st, fr, path, args, m):
    ty, op = m.group(1), m.group(2)
    a = args[0] if args else None
    w = INT_W[ty]
    signed = ty in SIGNED
    MIN = -(1 << (w - 1)) if signed else 0
    MAX = (1 << (w - 1)) - 1 if signed else (1 << w) - 1
    if op == "min_value":
        return I(ty, MIN)
    if op == "max_value":
        return I(ty, MAX)
    if op in ("wrapping_rem", "wrapping_div", "checked_div", "checked_rem"):
        b = args[1]
        if ex.decide(st, binop("Eq", b, I(ty, 0))):
            if op.startswith("checked"):
                return NONE()
            raise Panic("attempt to divide by zero")
        ovf = I("bool", 0)
        if signed:
            ovf = band(binop("Eq", a, I(ty, MIN)), binop("Eq", b, I(ty, -1)))
        if ex.decide(st, ovf):
            if op.startswith("checked"):
                return NONE()
            return I(ty, MIN if op.endswith("div") else 0)
        r = binop("Div" if op.endswith("div") else "Rem", a, b)
        return some(r) if op.startswith("checked") else r
    if op in ("wrapping_neg",):
        return unop("Neg", a)
    if op == "overflowing_neg":
        return Agg("tuple", [unop("Neg", a), binop("Eq", a, I(ty, MIN)) if signed else binop("Ne", a, I(ty, 0))])
    if op == "checked_neg":
        bad = binop("Eq", a, I(ty, MIN)) if signed else binop("Ne", a, I(ty, 0))
        if ex.decide(st, bad):
            return NONE()
        return some(unop("Neg", a))
    if op in ("abs", "wrapping_abs"):
        if op == "abs" and ex.decide(st, binop("Eq", a, I(ty, MIN))):
            raise Panic("attempt to negate with overflow (abs)")
        return ite(binop("Lt", a, I(ty, 0)), unop("Neg", a), a)
    if op == "unsigned_abs":
        uty = "u" + ty[1:]
        return cast_int(ite(binop("Lt", a, I(ty, 0)), unop("Neg", a), a), uty)
    if op == "is_negative":
        return binop("Lt", a, I(ty, 0))
    if op == "is_positive":
        return binop("Gt", a, I(ty, 0))
    if op == "signum":
        return ite(binop("Lt", a, I(ty, 0)), I(ty, -1), ite(binop("Eq", a, I(ty, 0)), I(ty, 0), I(ty, 1)))
    if op in ("leading_zeros", "trailing_zeros", "count_ones"):
        if a.concrete:
            u = a.v & ((1 << w) - 1)
            if op == "count_ones":
                return I("u32", bin(u).count("1"))
            if op == "leading_zeros":
                return I("u32", w - u.bit_length())
            return I("u32", w if u == 0 else (u & -u).bit_length() - 1)
        z = a.z()
        if op == "count_ones":
            acc = z3.BitVecVal(0, 32)
            for i in range(w):
                acc = acc + z3.ZeroExt(31, z3.Extract(i, i, z))
            return I("u32", acc)
        res = z3.BitVecVal(w, 32)
        rng = range(w) if op == "leading_zeros" else range(w - 1, -1, -1)
        for i in rng:
            cnt = (w - 1 - i) if op == "leading_zeros" else i
            res = z3.If(z3.Extract(i, i, z) == 1, z3.BitVecVal(cnt, 32), res)
        return I("u32", res)
    if op == "div_ceil":
        b = args[1]
        if ex.decide(st, binop("Eq", b, I(ty, 0))):
            raise Panic("attempt to divide by zero")
        if signed:
            return NotImplemented
        q = binop("Div", a, b)
        r = binop("Rem", a, b)
        return ite(binop("Ne", r, I(ty, 0)), binop("Add", q, I(ty, 1)), q)
    if op == "abs_diff":
        b = args[1]
        uty = ("u" + ty[1:]) if signed else ty
        lt = binop("Lt", a, b)
        return ite(lt, cast_int(binop("Sub", b, a), uty), cast_int(binop("Sub", a, b), uty))
    if op == "pow":
        b = args[1]
        e = ex.concretize(st, b, bound=70, what="exponent")
        acc = I(ty, 1)
        for _ in range(e):
            r = binop("MulWithOverflow", acc, a)
            if ex.decide(st, r.fields[1]):
                raise Panic("attempt to multiply with overflow (pow)")
            acc = r.fields[0]
        return acc
    if op in ("to_le", "from_le"):
        return a
    if op in ("swap_bytes", "to_be", "from_be"):
        if a.concrete:
            u = a.v & ((1 << w) - 1)
            return I(ty, int.from_bytes(u.to_bytes(w // 8, "little"), "big"))
        z = a.z()
        return I(ty, z3.Concat(*[z3.Extract(8 * i + 7, 8 * i, z) for i in range(w // 8)]))
    if op in ("rotate_left", "rotate_right"):
        b = args[1]
        n = ex.concretize(st, b, bound=130, what="rotate amount") % w
        if n == 0:
            return a
        if a.concrete:
            u = a.v & ((1 << w) - 1)
            if op == "rotate_right":
                n = w - n
            return I(ty, ((u << n) | (u >> (w - n))) & ((1 << w) - 1))
        return I(ty, z3.RotateLeft(a.z(), n) if op == "rotate_left" else z3.RotateRight(a.z(), n))
    if op in ("is_power_of_two",):
        if a.concrete:
            return I("bool", a.v > 0 and (a.v & (a.v - 1)) == 0)
        z = a.z()
        return I("bool", z3.And(z != 0, (z & (z - 1)) == 0))
    return NotImplemented


@model(r"^core::num::<impl (\w+)>::(from_str_radix)$|^<(\w+) as (?:std::str::)?FromStr>::from_str$|^core::str::<impl str>::parse::<(\w+)>$")
def m_parse(ex, st, fr, path, args, m):
    return NotImplemented


@model(r"^core::f64::<impl f64>::(to_bits|from_bits|is_nan|abs|is_finite|is_infinite|is_sign_negative|floor|ceil|round|trunc)$|^(?:std::)?f64::<impl f64>::(floor|ceil|round|trunc|abs)$|^std::f64::<impl f64>::(\w+)$")
def m_f64(ex, st, fr, path, args, m):
    op = m.group(1) or m.group(2) or m.group(3)
    a = args[0]
    if op == "to_bits":
        return I("u64", a.v)
    if op == "from_bits":
        return I("f64", a.v)
    F = to_fp(a)
    if op == "is_nan":
        if a.concrete:
            import math
            from .values import float_concrete
            return I("bool", math.isnan(float_concrete(a)))
        return I("bool", z3.fpIsNaN(F))
    if op == "abs":
        return I("f64", (a.v & ~(1 << 63)) if a.concrete else (a.z() & z3.BitVecVal((1 << 63) - 1, 64)))
    if op == "is_sign_negative":
        return I("bool", ((a.v >> 63) & 1) if a.concrete else (z3.Extract(63, 63, a.z()) == 1))
    if op in ("is_finite", "is_infinite"):
        inf = z3.fpIsInf(F)
        if op == "is_infinite":
            return I("bool", inf)
        return I("bool", z3.And(z3.Not(inf), z3.Not(z3.fpIsNaN(F))))
    if op in ("floor", "ceil", "trunc", "round"):
        rm = {"floor": z3.RTN(), "ceil": z3.RTP(), "trunc": z3.RTZ(), "round": z3.RNA()}[op]
        return I("f64", z3.fpToIEEEBV(z3.fpRoundToIntegral(rm, F)))
    return NotImplemented


# ------------------------------------------------------------------------------------------------
# Option / Result
# ------------------------------------------------------------------------------------------------
@model(r"^(?:std::option::)?Option::<(.*)>::(unwrap|expect|is_some|is_none|unwrap_or|unwrap_or_default|as_ref|as_mut|take|is_some_and|copied|cloned|ok_or|unwrap_unchecked|as_deref|as_deref_mut|replace|insert|get_or_insert)$")
def m_option(ex, st, fr, path, args, m):
    from .interp import Loc
    op = m.group(2)
    o = args[0]
    if op in ("as_ref", "as_mut", "take", "as_deref", "as_deref_mut", "replace", "insert", "get_or_insert"):
        r = o
        ov = deref_val(r)
        if not (isinstance(ov, Agg) and ov.name == "Option"):
            raise Unsupported(f"Option::{op} on {ov!r}")
        if op == "take":
            ex.write_loc(Loc(r.cell, r.path), NONE())
            return ov
        if op == "replace":
            ex.write_loc(Loc(r.cell, r.path), some(args[1]))
            return ov
        if op == "insert" or (op == "get_or_insert" and ov.variant == "None"):
            ex.write_loc(Loc(r.cell, r.path), some(args[1]))
            return Ref(r.cell, r.path + (("d", "Some"), ("f", 0)), None, False, True)
        if ov.variant == "None":
            return NONE()
        inner = Ref(r.cell, r.path + (("d", "Some"), ("f", 0)), None, False, op.endswith("mut"))
        if op.startswith("as_deref"):
            iv = deref_val(inner)
            if isinstance(iv, VecObj):
                return some(Ref(inner.cell, inner.path, (0, len(iv.elems)), iv.is_str, inner.mut))
            if isinstance(iv, Ref):
                return some(iv)
            raise Unsupported("as_deref of " + repr(iv))
        return some(inner)
    if isinstance(o, Ref) and op in ("is_some", "is_none", "copied", "cloned"):
        o = deref_val(o)
    if not (isinstance(o, Agg) and o.name == "Option"):
        raise Unsupported(f"Option::{op} on {o!r}")
    if op in ("unwrap", "expect", "unwrap_unchecked"):
        if o.variant == "None":
            raise Panic("called `Option::unwrap()` on a `None` value")
        return o.fields[0]
    if op == "is_some":
        return I("bool", o.variant == "Some")
    if op == "is_none":
        return I("bool", o.variant == "None")
    if op == "unwrap_or":
        return o.fields[0] if o.variant == "Some" else args[1]
    if op in ("copied", "cloned"):
        if o.variant == "None":
            return o
        return some(deep_clone(deref_val(o.fields[0])))
    if op == "ok_or":
        return ok(o.fields[0]) if o.variant == "Some" else err(args[1])
    return NotImplemented


@model(r"^(?:std::option::)?Option::<(.*)>::(map|and_then|map_or|unwrap_or_else|map_or_else|ok_or_else|filter|is_some_and|or_else)::<")
def m_option_closure(ex, st, fr, path, args, m):
    o = args[0]
    op = m.group(2)
    if not (isinstance(o, Agg) and o.name == "Option"):
        return NotImplemented
    if op == "map":
        return NONE() if o.variant == "None" else some(ex.call_closure(st, fr, args[1], [o.fields[0]]))
    if op == "and_then":
        return NONE() if o.variant == "None" else ex.call_closure(st, fr, args[1], [o.fields[0]])
    if op == "map_or":
        return args[1] if o.variant == "None" else ex.call_closure(st, fr, args[2], [o.fields[0]])
    if op == "map_or_else":
        return ex.call_closure(st, fr, args[1], []) if o.variant == "None" else ex.call_closure(st, fr, args[2], [o.fields[0]])
    if op == "unwrap_or_else":
        return ex.call_closure(st, fr, args[1], []) if o.variant == "None" else o.fields[0]
    if op == "ok_or_else":
        return err(ex.call_closure(st, fr, args[1], [])) if o.variant == "None" else ok(o.fields[0])
    if op == "or_else":
        return ex.call_closure(st, fr, args[1], []) if o.variant == "None" else o
    if op == "is_some_and":
        if o.variant == "None":
            return I("bool", 0)
        return ex.call_closure(st, fr, args[1], [o.fields[0]])
    return NotImplemented


@model(r"^(?:std::result::)?Result::<(.*)>::(map|map_err|and_then|unwrap_or_else|or_else)::<")
def m_result_closure(ex, st, fr, path, args, m):
    o = args[0]
    op = m.group(2)
    if not (isinstance(o, Agg) and o.name == "Result"):
        return NotImplemented
    if op == "map":
        return ok(ex.call_closure(st, fr, args[1], [o.fields[0]])) if o.variant == "Ok" else o
    if op == "map_err":
        return err(ex.call_closure(st, fr, args[1], [o.fields[0]])) if o.variant == "Err" else o
    if op == "and_then":
        return ex.call_closure(st, fr, args[1], [o.fields[0]]) if o.variant == "Ok" else o
    if op == "unwrap_or_else":
        return o.fields[0] if o.variant == "Ok" else ex.call_closure(st, fr, args[1], [o.fields[0]])
    if op == "or_else":
        return o if o.variant == "Ok" else ex.call_closure(st, fr, args[1], [o.fields[0]])
    return NotImplemented


@model(r"^(?:core::|std::)?hint::must_use::<|^must_use::<")
def m_must_use(ex, st, fr, path, args, m):
    return args[0]


@model(r"^(?:std::result::)?Result::<(.*)>::(unwrap|expect|is_ok|is_err|ok|err|unwrap_or|as_ref)$")
def m_result(ex, st, fr, path, args, m):
    op = m.group(2)
    o = args[0]
    if op == "as_ref":
        r = o
        ov = deref_val(r)
        inner = Ref(r.cell, r.path + (("d", ov.variant), ("f", 0)))
        return Agg("enum", [inner], name="Result", variant=ov.variant)
    if isinstance(o, Ref) and op in ("is_ok", "is_err"):
        o = deref_val(o)
    if not (isinstance(o, Agg) and o.name == "Result"):
        raise Unsupported(f"Result::{op} on {o!r}")
    if op in ("unwrap", "expect"):
        if o.variant == "Err":
            raise Panic("called `Result::unwrap()` on an `Err` value")
        return o.fields[0]
    if op == "is_ok":
        return I("bool", o.variant == "Ok")
    if op == "is_err":
        return I("bool", o.variant == "Err")
    if op == "ok":
        return some(o.fields[0]) if o.variant == "Ok" else NONE()
    if op == "err":
        return some(o.fields[0]) if o.variant == "Err" else NONE()
    if op == "unwrap_or":
        return o.fields[0] if o.variant == "Ok" else args[1]
    return NotImplemented


@model(r"^<(?:std::result::)?Result<(.*)> as (?:std::ops::)?Try>::branch$|^<(?:std::option::)?Option<(.*)> as (?:std::ops::)?Try>::branch$")
def m_try_branch(ex, st, fr, path, args, m):
    o = args[0]
    if o.name == "Result":
        if o.variant == "Ok":
            return Agg("enum", [o.fields[0]], name="ControlFlow", variant="Continue")
        return Agg("enum", [Agg("enum", [o.fields[0]], name="Result", variant="Err")], name="ControlFlow", variant="Break")
    if o.variant == "Some":
        return Agg("enum", [o.fields[0]], name="ControlFlow", variant="Continue")
    return Agg("enum", [NONE()], name="ControlFlow", variant="Break")


@model(r"^<(?:std::result::)?Result<(.*)> as (?:std::ops::)?FromResidual<.*>>::from_residual$|^<(?:std::option::)?Option<(.*)> as (?:std::ops::)?FromResidual<.*>>::from_residual$")
def m_from_residual(ex, st, fr, path, args, m):
    o = args[0]
    return o     # Err(e) stays Err(e) (From<E> for E identity assumed: stated in obligations that rely on `?`)


# ------------------------------------------------------------------------------------------------
# Vec
# ------------------------------------------------------------------------------------------------
VEC = r"(?:std::vec::|alloc::vec::)?Vec::<(.*)>"


@model(r"^" + VEC + r"::(new|with_capacity)$")
def m_vec_new(ex, st, fr, path, args, m):
    cap = 0
    if args:
        c = args[0]
        cap = c.v if c.concrete else None      # capacity is only a hint unless a kernel reads it back
    return VecObj([], m.group(1), cap)


@model(r"^(?:std::vec::|alloc::vec::)?from_elem::<(.*)>$")
def m_vec_from_elem(ex, st, fr, path, args, m):
    n = ex.concretize(st, args[1], bound=64, what="vec![x; n] length")
    return VecObj([deep_clone(args[0]) for _ in range(n)], m.group(1), n)


@model(r"^(?:std::string::|alloc::string::)?String::(new|with_capacity)$")
def m_string_new(ex, st, fr, path, args, m):
    return VecObj([], "u8", 0, is_str=True)


@model(r"^" + VEC + r"::(push|len|is_empty|clear|capacity|pop|truncate|extend_from_slice|resize|as_slice|as_mut_slice|reserve|reserve_exact|shrink_to_fit|insert|remove|swap_remove|append|last|first|as_ptr|as_mut_ptr|set_len|into_boxed_slice|drain|dedup|split_off|iter|retain)$")
def m_vec(ex, st, fr, path, args, m):
    op = m.group(2)
    if op == "into_boxed_slice":
        v = args[0]
        cell = Cell(v)
        return Ref(cell, (), (0, len(v.elems)), v.is_str, True)
    r = args[0]
    v = vec_of(r)
    if op == "push":
        v.elems.append(args[1])
        if v.cap is not None and len(v.elems) > v.cap:
            v.cap = max(2 * v.cap, 4, len(v.elems))
        return UNIT
    if op == "len":
        return I("usize", len(v.elems))
    if op == "is_empty":
        return I("bool", len(v.elems) == 0)
    if op == "clear":
        del v.elems[:]
        return UNIT
    if op == "capacity":
        if v.cap is None:
            raise Unsupported("Vec::capacity after with_capacity(symbolic)")
        return I("usize", max(v.cap, len(v.elems)))
    if op == "pop":
        if not v.elems:
            return NONE()
        return some(v.elems.pop())
    if op == "truncate":
        n = ex.concretize(st, args[1], bound=len(v.elems) + 1, what="truncate length")
        if n < len(v.elems):
            del v.elems[n:]
        return UNIT
    if op == "extend_from_slice":
        el, lo, hi = seq_of(args[1])
        v.elems.extend(deep_clone(e) for e in el[lo:hi])
        return UNIT
    if op == "resize":
        n = ex.concretize(st, args[1], bound=64, what="resize length")
        if n < len(v.elems):
            del v.elems[n:]
        else:
            v.elems.extend(deep_clone(args[2]) for _ in range(n - len(v.elems)))
        if v.cap is not None:
            v.cap = max(v.cap, n)
        return UNIT
    if op in ("as_slice", "as_mut_slice"):
        return Ref(r.cell, r.path, (0, len(v.elems)), v.is_str, op == "as_mut_slice")
    if op == "shrink_to_fit":
        v.cap = len(v.elems)      # the system allocator shrinks exactly; kernels assert len == capacity afterwards
        return UNIT
    if op in ("reserve", "reserve_exact"):
        return UNIT
    if op == "insert":
        i = ex.concretize(st, args[1], bound=len(v.elems) + 2, what="insert index")
        if i > len(v.elems):
            raise Panic("insertion index out of bounds")
        v.elems.insert(i, args[2])
        return UNIT
    if op in ("remove", "swap_remove"):
        i = ex.concretize(st, args[1], bound=len(v.elems) + 2, what="remove index")
        if i >= len(v.elems):
            raise Panic("removal index out of bounds")
        if op == "remove":
            return v.elems.pop(i)
        x = v.elems[i]
        v.elems[i] = v.elems[-1]
        v.elems.pop()
        return x
    if op == "append":
        o = vec_of(args[1])
        v.elems.extend(o.elems)
        del o.elems[:]
        return UNIT
    if op in ("last", "first"):
        if not v.elems:
            return NONE()
        k = len(v.elems) - 1 if op == "last" else 0
        return some(Ref(r.cell, r.path + (("i", k),)))
    if op == "iter":
        return IterV("slice", ref=Ref(r.cell, r.path, (0, len(v.elems))), pos=0, end=len(v.elems))
    return NotImplemented


@model(r"^" + VEC + r"::drain::<(?:std::ops::)?RangeFull>$")
def m_vec_drain_full(ex, st, fr, path, args, m):
    """v.drain(..): the vector is emptied at once and the iterator owns the removed elements (the Drain guard's effect after
    it has been consumed or dropped; a Drain that is leaked half-way is not modelled)"""
    v = vec_of(args[0])
    taken = list(v.elems)
    del v.elems[:]
    cell = Cell(VecObj(taken, v.ty))
    return IterV("slice_val", ref=Ref(cell, (), (0, len(taken))), pos=0, end=len(taken))


@model(r"^<" + r"(?:std::vec::|alloc::vec::)?Vec<(.*)>" + r" as (?:std::ops::)?(Deref|DerefMut)>::(deref|deref_mut)$")
def m_vec_deref(ex, st, fr, path, args, m):
    r = args[0]
    v = vec_of(r)
    if isinstance(deref_val(r), Ref):
        r = deref_val(r)
    return Ref(r.cell, r.path, (0, len(v.elems)), v.is_str, m.group(2) == "DerefMut")


@model(r"^<(?:std::string::|alloc::string::)?String as (?:std::ops::)?(Deref|DerefMut)>::(deref|deref_mut)$|^(?:std::string::|alloc::string::)?String::(as_str|as_bytes|as_mut_str)$")
def m_string_deref(ex, st, fr, path, args, m):
    r = args[0]
    v = vec_of(r)
    if isinstance(deref_val(r), Ref):
        r = deref_val(r)
    return Ref(r.cell, r.path, (0, len(v.elems)), (m.group(3) or "") != "as_bytes", False)


@model(r"^(?:std::string::|alloc::string::)?String::(len|is_empty|push_str|push|clear|into_bytes|from_utf8_unchecked|from_utf8|capacity)$")
def m_string(ex, st, fr, path, args, m):
    op = m.group(1)
    if op in ("from_utf8_unchecked", "from_utf8"):
        v = args[0]
        nv = VecObj(v.elems, "u8", v.cap, is_str=True)
        return nv if op == "from_utf8_unchecked" else ok(nv)
    if op == "into_bytes":
        v = args[0]
        return VecObj(v.elems, "u8", v.cap, is_str=False)
    v = vec_of(args[0])
    if op == "len":
        return I("usize", len(v.elems))
    if op == "is_empty":
        return I("bool", len(v.elems) == 0)
    if op == "push_str":
        el, lo, hi = seq_of(args[1])
        v.elems.extend(el[lo:hi])
        return UNIT
    if op == "clear":
        del v.elems[:]
        return UNIT
    return NotImplemented


@model(r"^<(?:std::vec::|alloc::vec::)?Vec<(.*)> as (?:std::ops::)?(Index|IndexMut)<(.*)>>::(index|index_mut)$|^<\[(.*)\] as (?:std::ops::)?(Index|IndexMut)<(.*)>>::(index|index_mut)$|^core::slice::index::<impl (?:std::ops::)?(Index|IndexMut)<(.*)> for \[(.*)\]>::(index|index_mut)$")
def m_index(ex, st, fr, path, args, m):
    r, idx = args
    el, lo, hi = seq_of(r)
    n = hi - lo
    if isinstance(deref_val(r), Ref) and r.window is None:
        r = deref_val(r)
    if isinstance(idx, I):
        i = ex.concretize(st, idx, bound=n + 1)
        if i >= n or i < 0:
            raise Panic(f"index out of bounds: the len is {n} but the index is {i}")
        return elem_ref(r, i)
    if isinstance(idx, Agg) and idx.kind == "struct":
        nm = idx.name
        if nm == "Range":
            a = ex.concretize(st, idx.fields[0], bound=n + 2, what="range start")
            b = ex.concretize(st, idx.fields[1], bound=n + 2, what="range end")
        elif nm == "RangeFrom":
            a = ex.concretize(st, idx.fields[0], bound=n + 2, what="range start")
            b = n
        elif nm == "RangeTo":
            a = 0
            b = ex.concretize(st, idx.fields[0], bound=n + 2, what="range end")
        elif nm == "RangeFull":
            a, b = 0, n
        elif nm == "RangeInclusive":
            a = ex.concretize(st, idx.fields[0], bound=n + 2, what="range start")
            b = ex.concretize(st, idx.fields[1], bound=n + 2, what="range end") + 1
        elif nm == "RangeToInclusive":
            a = 0
            b = ex.concretize(st, idx.fields[0], bound=n + 2, what="range end") + 1
        else:
            return NotImplemented
        if a > b:
            raise Panic(f"slice index starts at {a} but ends at {b}")
        if b > n:
            raise Panic(f"range end index {b} out of range for slice of length {n}")
        return slice_ref(r, a, b)
    return NotImplemented


# ------------------------------------------------------------------------------------------------
# slices
# ------------------------------------------------------------------------------------------------
@model(r"^core::slice::<impl \[(.*)\]>::(len|is_empty|iter|iter_mut|to_vec|last|first|get|get_mut|last_mut|first_mut|split_at|swap|contains|copy_from_slice|clone_from_slice|fill|reverse|get_unchecked|get_unchecked_mut|as_ptr|to_owned|chunks|starts_with|ends_with|split_first|split_last|concat)$|^(?:alloc|std)::slice::<impl \[(.*)\]>::(to_vec|into_vec|to_owned|concat)$")
def m_slice(ex, st, fr, path, args, m):
    op = m.group(2) or m.group(4)
    r = args[0]
    if op == "into_vec":
        el, lo, hi = seq_of(r)
        return VecObj(el[lo:hi], None)
    el, lo, hi = seq_of(r)
    n = hi - lo
    if isinstance(r, Ref) and isinstance(deref_val(r), Ref) and r.window is None:
        r = deref_val(r)
    if op == "len":
        return I("usize", n)
    if op == "is_empty":
        return I("bool", n == 0)
    if op in ("iter", "iter_mut"):
        return IterV("slice", ref=slice_ref(r), pos=0, end=n)
    if op in ("to_vec", "to_owned"):
        return VecObj([deep_clone(e) for e in el[lo:hi]], None, is_str=False)
    if op in ("last", "first", "last_mut", "first_mut"):
        if n == 0:
            return NONE()
        return some(elem_ref(r, n - 1 if op.startswith("last") else 0))
    if op in ("get", "get_mut", "get_unchecked", "get_unchecked_mut"):
        idx = args[1]
        if isinstance(idx, I):
            i = ex.concretize(st, idx, bound=n + 2)
            if op.startswith("get_unchecked"):
                return elem_ref(r, i)
            if 0 <= i < n:
                return some(elem_ref(r, i))
            return NONE()
        return NotImplemented
    if op == "split_at":
        k = ex.concretize(st, args[1], bound=n + 2, what="split point")
        if k > n:
            raise Panic("mid > len")
        return Agg("tuple", [slice_ref(r, 0, k), slice_ref(r, k, n)])
    if op == "swap":
        i = ex.concretize(st, args[1], bound=n + 1)
        j = ex.concretize(st, args[2], bound=n + 1)
        if i >= n or j >= n:
            raise Panic("index out of bounds (swap)")
        el[lo + i], el[lo + j] = el[lo + j], el[lo + i]
        return UNIT
    if op in ("copy_from_slice", "clone_from_slice"):
        el2, lo2, hi2 = seq_of(args[1])
        if hi2 - lo2 != n:
            raise Panic("source slice length does not match destination slice length")
        for k in range(n):
            el[lo + k] = deep_clone(el2[lo2 + k])
        return UNIT
    if op == "fill":
        for k in range(n):
            el[lo + k] = deep_clone(args[1])
        return UNIT
    if op == "reverse":
        el[lo:hi] = el[lo:hi][::-1]
        return UNIT
    if op == "contains":
        x = deref_val(args[1])
        acc = I("bool", 0)
        for e in el[lo:hi]:
            eq = binop("Eq", e, x)
            acc = I("bool", z3.Or(acc.z(), eq.z())) if not (acc.concrete and eq.concrete) else I("bool", acc.v or eq.v)
        return acc
    return NotImplemented


@model(r"^core::str::<impl str>::(len|is_empty|as_bytes|to_string|to_owned|as_ptr|bytes|chars)$|^<str as (?:std::string::|alloc::string::)?ToString>::to_string$|^<str as (?:std::borrow::|alloc::borrow::)?ToOwned>::to_owned$|^<(?:std::string::)?String as (?:std::convert::)?From<&str>>::from$")
def m_str(ex, st, fr, path, args, m):
    op = m.group(1) or "to_string"
    r = args[0]
    el, lo, hi = seq_of(r)
    if op == "len":
        return I("usize", hi - lo)
    if op == "is_empty":
        return I("bool", hi == lo)
    if op == "as_bytes":
        rr = slice_ref(r)
        return Ref(rr.cell, rr.path, rr.window, False, False)
    if op in ("to_string", "to_owned"):
        return VecObj(el[lo:hi], "u8", is_str=True)
    if op == "bytes":
        return IterV("slice_val", ref=slice_ref(r), pos=0, end=hi - lo)
    if op == "chars":
        return IterV("chars", ref=slice_ref(r), pos=0, end=hi - lo)
    return NotImplemented


@model(r"^(?:std|core|alloc)::str::<impl str>::(to_lowercase|to_uppercase|to_ascii_lowercase|to_ascii_uppercase)$")
def m_str_case(ex, st, fr, path, args, m):
    """ASCII only (Unicode case mapping is not modelled: a non-ASCII byte makes the obligation unsupported)"""
    el, lo, hi = seq_of(args[0])
    lower = "lower" in m.group(1)
    out = []
    for b in el[lo:hi]:
        if not ex.decide(st, binop("Lt", b, I("u8", 128))):
            raise Unsupported("str case mapping of non-ASCII bytes (Unicode tables are not modelled)")
        a, z = (0x41, 0x5a) if lower else (0x61, 0x7a)
        if ex.decide(st, band(binop("Ge", b, I("u8", a)), binop("Le", b, I("u8", z)))):
            out.append(binop("BitXor", b, I("u8", 0x20)))
        else:
            out.append(b)
    return VecObj(out, "u8", is_str=True)


@model(r"^(?:std::string::|alloc::string::)?String::retain::<")
def m_string_retain(ex, st, fr, path, args, m):
    v = vec_of(args[0])
    keep = []
    for b in list(v.elems):
        if not ex.decide(st, binop("Lt", b, I("u8", 128))):
            raise Unsupported("String::retain over non-ASCII bytes (UTF-8 decoding is not modelled)")
        r = ex.call_closure(st, fr, args[1], [cast_int(b, "char")])
        if ex.decide(st, r):
            keep.append(b)
    v.elems[:] = keep
    return UNIT


@model(r"^core::str::<impl str>::(trim_start_matches|trim_end_matches)::<\[char; (\d+)\]>$")
def m_trim_matches(ex, st, fr, path, args, m):
    el, lo, hi = seq_of(args[0])
    pat = args[1]
    chars = list(pat.fields) if isinstance(pat, Agg) else list(seq_of(pat)[0])

    def hit(b):
        return any(ex.decide(st, binop("Eq", cast_int(b, "char"), c)) for c in chars)
    r = args[0]
    base = r.window[0] if isinstance(r, Ref) and r.window else 0
    if m.group(1) == "trim_start_matches":
        while lo < hi and hit(el[lo]):
            lo += 1
    else:
        while hi > lo and hit(el[hi - 1]):
            hi -= 1
    sr = slice_ref(r)
    off = sr.window[0] - (seq_of(sr)[1])
    return Ref(sr.cell, sr.path, (lo, hi), True, False)


@model(r"^(?:(core|std)::str::(?:<impl str>::)?)?(from_utf8_unchecked|from_utf8)$|^(core|std)::str::converts::(from_utf8_unchecked|from_utf8)$")
def m_from_utf8(ex, st, fr, path, args, m):
    r = args[0]
    rr = slice_ref(r)
    s = Ref(rr.cell, rr.path, rr.window, True, False)
    if (m.group(2) or m.group(4)) == "from_utf8":
        return ok(s)       # assumption recorded by the obligations that pass symbolic bytes: input is valid UTF-8
    return s


@model(r"^<(?:\[(.*)\]|str) as (?:std::cmp::)?PartialEq(?:<.*>)?>::(eq|ne)$|^<&(?:\[(.*)\]|str) as (?:std::cmp::)?PartialEq(?:<.*>)?>::(eq|ne)$|^core::str::traits::<impl (?:std::cmp::)?PartialEq for str>::(eq|ne)$|^<(?:std::string::)?String as (?:std::cmp::)?PartialEq(?:<.*>)?>::(eq|ne)$")
def m_slice_eq(ex, st, fr, path, args, m):
    a, b = args
    a = a if not isinstance(deref_val(a), Ref) else deref_val(a)
    b = b if not isinstance(deref_val(b), Ref) else deref_val(b)
    e1, l1, h1 = seq_of(a)
    e2, l2, h2 = seq_of(b)
    neg = path.endswith("::ne")
    if h1 - l1 != h2 - l2:
        return I("bool", neg)
    acc = []
    for x, y in zip(e1[l1:h1], e2[l2:h2]):
        if not (isinstance(x, I) and isinstance(y, I)):
            return NotImplemented
        acc.append(binop("Eq", x, y))
    r = band(*acc) if acc else I("bool", 1)
    return bnot(r) if neg else r


def struct_eq(ex, st, a, b):
    """derived PartialEq on Option/Result/tuples/refs of scalars -> I(bool) (None if not applicable)"""
    a, b = deref_val(a), deref_val(b)
    while isinstance(a, Ref) and a.window is None:
        a = deref_val(a)
    while isinstance(b, Ref) and b.window is None:
        b = deref_val(b)
    if isinstance(a, I) and isinstance(b, I):
        return binop("Eq", a, b)
    if isinstance(a, Agg) and isinstance(b, Agg):
        if a.kind == "enum" or b.kind == "enum":
            if a.variant != b.variant:
                return I("bool", 0)
        if len(a.fields) != len(b.fields):
            return I("bool", 0)
        acc = []
        for x, y in zip(a.fields, b.fields):
            e = struct_eq(ex, st, x, y)
            if e is None:
                return None
            acc.append(e)
        return band(*acc) if acc else I("bool", 1)
    if isinstance(a, Ref) and isinstance(b, Ref):
        e1, l1, h1 = seq_of(a)
        e2, l2, h2 = seq_of(b)
        if h1 - l1 != h2 - l2:
            return I("bool", 0)
        acc = [struct_eq(ex, st, x, y) for x, y in zip(e1[l1:h1], e2[l2:h2])]
        if any(x is None for x in acc):
            return None
        return band(*acc) if acc else I("bool", 1)
    return None


@model(r"^<(?:std::option::)?Option<(.*)> as (?:std::cmp::)?PartialEq>::(eq|ne)$|^<\((.*)\) as (?:std::cmp::)?PartialEq>::(eq|ne)$|^<(?:std::result::)?Result<(.*)> as (?:std::cmp::)?PartialEq>::(eq|ne)$|^<&(.*) as (?:std::cmp::)?PartialEq(?:<.*>)?>::(eq|ne)$")
def m_struct_eq(ex, st, fr, path, args, m):
    e = struct_eq(ex, st, args[0], args[1])
    if e is None:
        return NotImplemented
    return bnot(e) if path.endswith("::ne") else e


def bytes_cmp(ex, st, a, b):
    """lexicographic comparison of two byte sequences -> -1/0/1 (forks on symbolic bytes)"""
    e1, l1, h1 = seq_of(a)
    e2, l2, h2 = seq_of(b)
    for x, y in zip(e1[l1:h1], e2[l2:h2]):
        if ex.decide(st, binop("Lt", x, y)):
            return -1
        if not ex.decide(st, binop("Eq", x, y)):
            return 1
    n1, n2 = h1 - l1, h2 - l2
    return -1 if n1 < n2 else (0 if n1 == n2 else 1)


@model(r"^<(?:&)?(?:str|\[u8\]) as (?:std::cmp::)?(PartialOrd|Ord)(?:<.*>)?>::(lt|le|gt|ge|cmp|partial_cmp)$|^core::str::traits::<impl (?:std::cmp::)?(PartialOrd|Ord) for str>::(lt|le|gt|ge|cmp|partial_cmp)$|^core::slice::cmp::<impl (?:std::cmp::)?(PartialOrd|Ord) for \[u8\]>::(lt|le|gt|ge|cmp|partial_cmp)$")
def m_str_cmp(ex, st, fr, path, args, m):
    a, b = args
    a = a if not isinstance(deref_val(a), Ref) else deref_val(a)
    b = b if not isinstance(deref_val(b), Ref) else deref_val(b)
    op = path.split("::")[-1]
    k = bytes_cmp(ex, st, a, b)
    if op == "cmp":
        return ordering(k)
    if op == "partial_cmp":
        return some(ordering(k))
    return I("bool", {"lt": k < 0, "le": k <= 0, "gt": k > 0, "ge": k >= 0}[op])


# ------------------------------------------------------------------------------------------------
# iterators
# ------------------------------------------------------------------------------------------------
@model(r"^<&mut ([A-Z]\w*)(?:<.*>)? as (?:std::iter::)?(IntoIterator|Iterator)>::(into_iter|next)$")
def m_mut_ref_iterator(ex, st, fr, path, args, m):
    """`impl<I: Iterator> Iterator for &mut I` / IntoIterator for a crate-defined iterator struct behind &mut: forward to I"""
    ty, op = m.group(1), m.group(3)
    if op == "into_iter":
        v = deref_val(args[0])
        if isinstance(v, Agg) and v.kind == "struct" and (v.name or "") == ty:
            return args[0]
        return NotImplemented
    # next(&mut &mut I): peel one reference and run I::next
    r = args[0]
    inner = deref_val(r)
    if not isinstance(inner, Ref):
        return NotImplemented
    tgt = deref_val(inner)
    if not (isinstance(tgt, Agg) and tgt.kind == "struct" and (tgt.name or "") == ty):
        return NotImplemented
    res = ex.resolve_method(ty, "Iterator", "next")
    if res is None:
        return NotImplemented
    return ex.call_sync(st, res[0], [inner], dict(res[1]))


@model(r"^<(.*) as (?:std::iter::)?IntoIterator>::into_iter$")
def m_into_iter(ex, st, fr, path, args, m):
    a = args[0]
    if isinstance(a, IterV):
        return a
    if isinstance(a, Agg) and a.name in ("Range", "RangeInclusive"):
        if a.name == "Range":
            return IterV("range", cur=a.fields[0], end=a.fields[1])
        return IterV("range_incl", cur=a.fields[0], end=a.fields[1], done=False)
    if isinstance(a, VecObj) or (isinstance(a, Agg) and a.kind == "array"):
        cell = Cell(a)
        n = len(a.elems) if isinstance(a, VecObj) else len(a.fields)
        return IterV("slice_val", ref=Ref(cell, (), (0, n)), pos=0, end=n)
    if isinstance(a, Agg) and a.name == "HashMap":
        # by value: yields (K, V) tuples in the model's insertion order
        cell = Cell(VecObj(list(a.fields[0].elems)))
        return IterV("slice_val", ref=Ref(cell, (), (0, len(a.fields[0].elems))), pos=0, end=len(a.fields[0].elems))
    if isinstance(a, Ref) and isinstance(deref_val(a), Agg) and deref_val(a).name == "HashMap":
        return IterV("hashmap", ref=a, pos=0, what="iter")
    if isinstance(a, Ref):
        el, lo, hi = seq_of(a)
        return IterV("slice", ref=slice_ref(a), pos=0, end=hi - lo)
    if isinstance(a, Agg) and a.kind == "struct" and m.group(1).split("<")[0].split("::")[-1] == (a.name or ""):
        return a      # blanket `impl<I: Iterator> IntoIterator for I` on a crate-defined iterator
    return NotImplemented


def iter_next(ex, st, it):
    """advance IterV; returns Option value.  decide-before-mutate."""
    k = it.kind
    if k in ("slice", "slice_val"):
        if it.pos >= it.end:
            return NONE()
        r = elem_ref(it.ref, it.pos)
        it.pos += 1
        if k == "slice_val":
            return some(deref_val(r))
        return some(r)
    if k == "range":
        lt = ex.decide(st, binop("Lt", it.cur, it.end))
        if not lt:
            return NONE()
        v = it.cur
        it.cur = binop("Add", it.cur, I(it.cur.ty, 1))
        return some(v)
    if k == "range_incl":
        if it.done:
            return NONE()
        le = ex.decide(st, binop("Le", it.cur, it.end))
        if not le:
            it.done = True
            return NONE()
        v = it.cur
        if ex.decide(st, binop("Eq", it.cur, it.end)):
            it.done = True
        else:
            it.cur = binop("Add", it.cur, I(it.cur.ty, 1))
        return some(v)
    if k == "enumerate":
        o = iter_next(ex, st, it.inner)
        if o.variant == "None":
            return o
        i = it.count
        it.count += 1
        return some(Agg("tuple", [I("usize", i), o.fields[0]]))
    if k == "zip":
        # std: a.next() first, then b.next()
        import copy
        a = iter_next(ex, st, it.a)
        if a.variant == "None":
            return a
        b = iter_next(ex, st, it.b)
        if b.variant == "None":
            return b
        return some(Agg("tuple", [a.fields[0], b.fields[0]]))
    if k == "take":
        if it.n == 0:
            return NONE()
        it.n -= 1
        return iter_next(ex, st, it.inner)
    if k == "skip":
        while it.n > 0:
            it.n -= 1
            o = iter_next(ex, st, it.inner)
            if o.variant == "None":
                return o
        return iter_next(ex, st, it.inner)
    if k == "copied":
        o = iter_next(ex, st, it.inner)
        if o.variant == "None":
            return o
        return some(deep_clone(deref_val(o.fields[0])))
    if k == "rev":
        inner = it.inner
        if inner.kind in ("slice", "slice_val"):
            if inner.pos >= inner.end:
                return NONE()
            inner.end -= 1
            r = elem_ref(inner.ref, inner.end)
            return some(deref_val(r) if inner.kind == "slice_val" else r)
        if inner.kind == "range":
            lt = ex.decide(st, binop("Lt", inner.cur, inner.end))
            if not lt:
                return NONE()
            inner.end = binop("Sub", inner.end, I(inner.end.ty, 1))
            return some(inner.end)
        raise Unsupported("rev of " + inner.kind)
    if k == "chain":
        if it.a is not None:
            o = iter_next(ex, st, it.a)
            if o.variant == "Some":
                return o
            it.a = None
        return iter_next(ex, st, it.b)
    if k == "chars":
        if it.pos >= it.end:
            return NONE()
        b = deref_val(elem_ref(it.ref, it.pos))
        if not ex.decide(st, binop("Lt", b, I("u8", 128))):
            raise Unsupported("str::chars over non-ASCII bytes (UTF-8 decoding is not modelled)")
        it.pos += 1
        return some(cast_int(b, "char"))
    if k == "map":
        o = iter_next(ex, st, it.inner)
        if o.variant == "None":
            return o
        return some(ex.call_closure(st, it.tymap, it.closure, [o.fields[0]]))
    if k == "filter":
        while True:
            o = iter_next(ex, st, it.inner)
            if o.variant == "None":
                return o
            keep = ex.call_closure(st, it.tymap, it.closure, [Ref(Cell(o.fields[0]))])
            if ex.decide(st, keep):
                return o
    if k == "hashmap":
        ents = hashmap_entries(it.ref)
        if it.pos >= len(ents):
            return NONE()
        base = it.ref.path + (("f", 0), ("i", it.pos))
        it.pos += 1
        kref = Ref(it.ref.cell, base + (("f", 0),))
        vref = Ref(it.ref.cell, base + (("f", 1),), None, False, it.what in ("values_mut", "iter_mut"))
        if it.what in ("values", "values_mut"):
            return some(vref)
        if it.what == "keys":
            return some(kref)
        return some(Agg("tuple", [kref, vref]))
    if k == "chunks":
        if it.pos >= it.end:
            return NONE()
        hi = min(it.pos + it.size, it.end)
        r = slice_ref(it.ref, it.pos, hi)
        it.pos = hi
        return some(r)
    raise Unsupported("iterator kind " + k)


@model(r"^<(.*) as (?:std::iter::)?Iterator>::next$|^<(.*) as (?:std::iter::)?DoubleEndedIterator>::next_back$")
def m_iter_next(ex, st, fr, path, args, m):
    it = deref_val(args[0])
    if not isinstance(it, IterV):
        return NotImplemented
    if path.endswith("next_back"):
        return iter_next(ex, st, IterV("rev", inner=it))
    # decide-before-mutate: run on a copy first so that a Fork leaves the iterator untouched
    probe = iter_clone(it)
    res = iter_next(ex, st, probe)
    it.__dict__.update(probe.__dict__)
    return res


@model(r"^<(.*) as (?:std::iter::)?Iterator>::(enumerate|zip|take|skip|copied|cloned|rev|chain|len|count|size_hint|by_ref|step_by)(::<.*>)?$|^<(.*) as (?:std::iter::)?ExactSizeIterator>::(len)$")
def m_iter_adapt(ex, st, fr, path, args, m):
    op = m.group(2) or m.group(5)
    it = args[0]
    if isinstance(it, Ref):
        itv = deref_val(it)
    else:
        itv = it
    if not isinstance(itv, IterV):
        return NotImplemented
    if op == "enumerate":
        return IterV("enumerate", inner=itv, count=0)
    if op == "zip":
        other = args[1]
        if isinstance(other, Ref):
            el, lo, hi = seq_of(other)
            other = IterV("slice", ref=slice_ref(other), pos=0, end=hi - lo)
        elif isinstance(other, VecObj):
            cell = Cell(other)
            other = IterV("slice_val", ref=Ref(cell, (), (0, len(other.elems))), pos=0, end=len(other.elems))
        elif isinstance(other, Agg) and other.name == "Range":
            other = IterV("range", cur=other.fields[0], end=other.fields[1])
        if not isinstance(other, IterV):
            return NotImplemented
        return IterV("zip", a=itv, b=other)
    if op == "take":
        return IterV("take", inner=itv, n=ex.concretize(st, args[1], bound=64, what="take count"))
    if op == "skip":
        return IterV("skip", inner=itv, n=ex.concretize(st, args[1], bound=64, what="skip count"))
    if op in ("copied", "cloned"):
        return IterV("copied", inner=itv)
    if op == "rev":
        return IterV("rev", inner=itv)
    if op == "chain":
        other = args[1]
        if not isinstance(other, IterV):
            return NotImplemented
        return IterV("chain", a=itv, b=other)
    if op in ("len", "count"):
        if itv.kind in ("slice", "slice_val"):
            return I("usize", itv.end - itv.pos)
        return NotImplemented
    if op == "by_ref":
        return it
    return NotImplemented


@model(r"^<(.*) as (?:std::iter::)?Iterator>::unzip::<")
def m_iter_unzip(ex, st, fr, path, args, m):
    it = as_iter(args[0])
    if it is None:
        return NotImplemented
    it = iter_clone(it)
    a, b = [], []
    while True:
        o = iter_next(ex, st, it)
        if o.variant == "None":
            break
        t = o.fields[0]
        if isinstance(t, Ref):
            t = deref_val(t)
        a.append(t.fields[0])
        b.append(t.fields[1])
    return Agg("tuple", [VecObj(a), VecObj(b)])


def as_iter(x):
    """IterV for an iterator-like value (IterV, Range, &IterV)"""
    if isinstance(x, Ref):
        x = deref_val(x)
    if isinstance(x, IterV):
        return x
    if isinstance(x, Agg) and x.name == "Range":
        return IterV("range", cur=x.fields[0], end=x.fields[1])
    if isinstance(x, VecObj):
        return IterV("slice_val", ref=Ref(Cell(x), (), (0, len(x.elems))), pos=0, end=len(x.elems))
    return None


@model(r"^<(.*) as (?:std::iter::)?Iterator>::(map|filter|all|any|collect|sum|fold|for_each|position|max|min|last|nth|find)(::<.*>)?$")
def m_iter_closure(ex, st, fr, path, args, m):
    import copy
    op = m.group(2)
    src = args[0]
    itv = as_iter(src)
    if itv is None:
        return NotImplemented
    if op in ("map", "filter"):
        return IterV(op, inner=itv, closure=args[1], tymap=dict(fr.tymap))
    work = iter_clone(itv)      # consume a copy of the iterator state first: a fork inside re-executes the whole call

    def commit():
        if isinstance(src, Ref) and isinstance(deref_val(src), IterV):
            deref_val(src).__dict__.update(work.__dict__)
    if op == "collect":
        out = []
        while True:
            o = iter_next(ex, st, work)
            if o.variant == "None":
                break
            out.append(o.fields[0])
        gm = re.search(r"collect::<(.*)>$", path)
        target = gm.group(1) if gm else ""
        commit()
        if target.startswith(("Vec<", "std::vec::Vec<")):
            inner = target[target.index("<") + 1:-1]
            return VecObj(out, inner)
        if target in ("String", "std::string::String"):
            return NotImplemented
        return VecObj(out, None)
    if op in ("all", "any"):
        res = I("bool", op == "all")
        while True:
            o = iter_next(ex, st, work)
            if o.variant == "None":
                break
            b = ex.call_closure(st, fr, args[1], [o.fields[0]])
            d = ex.decide(st, b)
            if op == "all" and not d:
                res = I("bool", 0)
                break
            if op == "any" and d:
                res = I("bool", 1)
                break
        commit()
        return res
    if op == "for_each":
        while True:
            o = iter_next(ex, st, work)
            if o.variant == "None":
                break
            ex.call_closure(st, fr, args[1], [o.fields[0]])
        return UNIT
    if op == "fold":
        acc = args[1]
        while True:
            o = iter_next(ex, st, work)
            if o.variant == "None":
                break
            acc = ex.call_closure(st, fr, args[2], [acc, o.fields[0]])
        return acc
    if op == "sum":
        gm = re.search(r"sum::<(\w+)>$", path)
        ty = gm.group(1) if gm else None
        if ty not in INT_W or ty in FLOATS:
            return NotImplemented
        acc = I(ty, 0)
        while True:
            o = iter_next(ex, st, work)
            if o.variant == "None":
                break
            x = o.fields[0]
            if isinstance(x, Ref):
                x = deref_val(x)
            r = binop("AddWithOverflow", acc, x)
            if ex.decide(st, r.fields[1]):
                raise Panic("attempt to add with overflow (Iterator::sum)")
            acc = r.fields[0]
        return acc
    if op == "last":
        last = NONE()
        while True:
            o = iter_next(ex, st, work)
            if o.variant == "None":
                break
            last = o
        return last
    if op == "position":
        k = 0
        while True:
            o = iter_next(ex, st, work)
            if o.variant == "None":
                return NONE()
            if ex.decide(st, ex.call_closure(st, fr, args[1], [o.fields[0]])):
                commit()
                return some(I("usize", k))
            k += 1
    return NotImplemented


@model(r"^<(?:std::ops::)?Range<(\w+)> as (?:std::iter::)?Iterator>::next$|^(?:core|std)::iter::range::<impl (?:std::iter::)?Iterator for (?:std::ops::)?Range<(\w+)>>::next$")
def m_range_next(ex, st, fr, path, args, m):
    r = args[0]
    rng = deref_val(r)
    if isinstance(rng, IterV):
        return NotImplemented
    cur, end = rng.fields
    if not ex.decide(st, binop("Lt", cur, end)):
        return NONE()
    rng.fields[0] = binop("Add", cur, I(cur.ty, 1))
    return some(cur)


@model(r"^(?:std::ops::|core::ops::)?Range::<(\w+)>::(len|is_empty|contains)$|^<(?:std::ops::)?Range<(\w+)> as (?:std::iter::)?ExactSizeIterator>::len$")
def m_range_misc(ex, st, fr, path, args, m):
    rng = deref_val(args[0])
    cur, end = rng.fields
    op = m.group(2) or "len"
    if op == "is_empty":
        return bnot(binop("Lt", cur, end))
    if op == "contains":
        x = deref_val(args[1])
        return band(binop("Le", cur, x), binop("Lt", x, end))
    if op == "len":
        return ite(binop("Lt", cur, end), binop("Sub", end, cur), I(cur.ty, 0))
    return NotImplemented


# ------------------------------------------------------------------------------------------------
# Box / misc
# ------------------------------------------------------------------------------------------------
@model(r"^(?:std::boxed::|alloc::boxed::)?Box::<(.*)>::new$")
def m_box_new(ex, st, fr, path, args, m):
    return Ref(Cell(args[0]), (), None, False, True)


@model(r"^(core|std)::hint::(black_box|assert_unchecked|unreachable_unchecked)|^(core|std)::intrinsics::(assume|likely|unlikely|cold_path)")
def m_hint(ex, st, fr, path, args, m):
    if "unreachable_unchecked" in path:
        raise Panic("unreachable_unchecked reached")
    if args and ("likely" in path or "black_box" in path):
        return args[0]
    return UNIT


@model(r"^<(?:std::borrow::)?Cow<.*> as (?:std::ops::)?Deref>::deref$")
def m_cow_deref(ex, st, fr, path, args, m):
    r = args[0]
    c = deref_val(r)
    if not (isinstance(c, Agg) and c.name == "Cow"):
        return NotImplemented
    if c.variant == "Borrowed":
        return c.fields[0]
    return Ref(r.cell, r.path + (("f", 0),), None, False, False)


@model(r"^<(?:ordered_float::)?OrderedFloat<(f64|f32)> as (?:std::convert::)?From<(f64|f32)>>::from$|^(?:ordered_float::)?OrderedFloat::<(f64|f32)>::into_inner$")
def m_ordered_float_from(ex, st, fr, path, args, m):
    if path.endswith("into_inner"):
        return args[0].fields[0]
    return Agg("struct", [args[0]], name="OrderedFloat")


@model(r"^<(?:ordered_float::)?OrderedFloat<(f64|f32)> as (?:std::ops::)?(Deref|DerefMut)>::(deref|deref_mut)$")
def m_ordered_float_deref(ex, st, fr, path, args, m):
    r = args[0]
    return Ref(r.cell, r.path + (("f", 0),), None, False, r.mut)


@model(r"^<(.*) as (?:std::ops::)?(Deref|DerefMut)>::(deref|deref_mut)$")
def m_deref_generic(ex, st, fr, path, args, m):
    r = args[0]
    v = deref_val(r)
    if isinstance(v, Ref):        # &Box<T>, &&T
        return v
    return NotImplemented


@model(r"^(?:std::cell::|core::cell::)?(Ref|RefMut)::<(.*)>::map::<")
def m_cell_ref_map(ex, st, fr, path, args, m):
    """cell::Ref / RefMut guards are represented by the reference they deref to; map applies the projection closure"""
    return ex.call_closure(st, fr, args[1], [args[0]])


@model(r"^<(.*) as (?:std::convert::)?AsRef<(.*)>>::as_ref$|^<(.*) as (?:std::borrow::)?Borrow<(.*)>>::borrow$")
def m_asref(ex, st, fr, path, args, m):
    r = args[0]
    v = deref_val(r)
    if isinstance(v, VecObj):
        return Ref(r.cell, r.path, (0, len(v.elems)), v.is_str)
    if isinstance(v, Ref):
        return v
    return r


# ------------------------------------------------------------------------------------------------
# byte conversions / Extend
# ------------------------------------------------------------------------------------------------
@model(r"^core::num::<impl (\w+)>::(from|to)_(be|le|ne)_bytes$")
def m_bytes_conv(ex, st, fr, path, args, m):
    ty, direction, endian = m.group(1), m.group(2), m.group(3)
    w = INT_W[ty]
    nbytes = w // 8
    big = endian == "be"
    if direction == "from":
        arr = args[0]
        bs = list(arr.fields)
        if big:
            bs = bs[::-1]            # bs[0] = least significant
        if all(b.concrete for b in bs):
            v = 0
            for i, b in enumerate(bs):
                v |= (b.v & 0xFF) << (8 * i)
            return I(ty, v)
        return I(ty, z3.Concat(*[b.z() for b in bs[::-1]]))
    x = args[0]
    if x.concrete:
        u = x.v & ((1 << w) - 1)
        bs = [I("u8", (u >> (8 * i)) & 0xFF) for i in range(nbytes)]
    else:
        bs = [I("u8", z3.Extract(8 * i + 7, 8 * i, x.z())) for i in range(nbytes)]
    if big:
        bs = bs[::-1]
    return Agg("array", bs)


@model(r"^<(?:std::vec::)?Vec<(.*)> as (?:std::iter::)?Extend<(.*)>>::extend::<(.*)>$")
def m_vec_extend(ex, st, fr, path, args, m):
    v = vec_of(args[0])
    src = args[1]
    if isinstance(src, IterV):
        it = iter_clone(src)
        out = []
        while True:
            o = iter_next(ex, st, it)
            if o.variant == "None":
                break
            out.append(deep_clone(deref_val(o.fields[0])) if m.group(2).startswith("&") else o.fields[0])
        v.elems.extend(out)
        return UNIT
    if isinstance(src, (Ref, VecObj)) or (isinstance(src, Agg) and src.kind == "array"):
        el, lo, hi = seq_of(src)
        v.elems.extend(deep_clone(e) for e in el[lo:hi])
        return UNIT
    return NotImplemented


@model(r"^<GenericArray<u8, .*> as (?:std::ops::)?Deref>::deref$|^GenericArray::<u8, .*>::as_slice$")
def m_generic_array(ex, st, fr, path, args, m):
    r = args[0]
    el, lo, hi = seq_of(r)
    return slice_ref(r)


@model(r"^<(?:std::string::)?String as (?:std::convert::)?Into<Box<dyn .*>>>::into$|^<Box<dyn .*> as (?:std::convert::)?From<.*>>::from$")
def m_box_error(ex, st, fr, path, args, m):
    return Opaque("BoxedError")


@model(r"^<&?(?:mut )?(\w+) as (?:std::ops::)?(Add|Sub|Mul|Div|Rem|BitAnd|BitOr|BitXor|Shl|Shr)(?:<&?(\w+)>)?>::(add|sub|mul|div|rem|bitand|bitor|bitxor|shl|shr)$")
def m_prim_ops(ex, st, fr, path, args, m):
    """operator traits on primitives and references to them (dev profile: overflow panics)"""
    a, b = deref_val(args[0]), deref_val(args[1])
    if not (isinstance(a, I) and isinstance(b, I)):
        return NotImplemented
    op = m.group(2)
    if a.ty in FLOATS:
        return binop(op, a, b)
    if op in ("Add", "Sub", "Mul"):
        r = binop(op + "WithOverflow", a, b)
        if ex.decide(st, r.fields[1]):
            raise Panic(f"attempt to {op.lower() if op != 'Mul' else 'multiply'} with overflow")
        return r.fields[0]
    if op in ("Div", "Rem"):
        if ex.decide(st, binop("Eq", b, I(b.ty, 0))):
            raise Panic("attempt to divide by zero")
        if a.ty in SIGNED:
            w = a.w
            if ex.decide(st, band(binop("Eq", a, I(a.ty, -(1 << (w - 1)))), binop("Eq", b, I(b.ty, -1)))):
                raise Panic("attempt to divide with overflow")
        return binop(op, a, b)
    return binop(op, a, b)


@model(r"^<(\w+) as (?:std::ops::)?(AddAssign|SubAssign|MulAssign)<&?(\w+)>>::(add_assign|sub_assign|mul_assign)$")
def m_prim_assign_ops(ex, st, fr, path, args, m):
    from .interp import Loc
    r = args[0]
    a, b = deref_val(r), deref_val(args[1])
    if not (isinstance(a, I) and isinstance(b, I)):
        return NotImplemented
    op = m.group(2)[:3]
    if a.ty in FLOATS:
        ex.write_loc(Loc(r.cell, r.path), binop(op, a, b))
        return UNIT
    res = binop(op + "WithOverflow", a, b)
    if ex.decide(st, res.fields[1]):
        raise Panic(f"attempt to {op.lower()} with overflow")
    ex.write_loc(Loc(r.cell, r.path), res.fields[0])
    return UNIT


# ------------------------------------------------------------------------------------------------
# BTreeMap<String, V> as a sorted association list (keys: byte strings; order = byte-wise, as str::cmp)
#   value = Agg("struct", [VecObj([Agg tuple (key VecObj, val)])], name="BTreeMap")
# ------------------------------------------------------------------------------------------------
def btree_new():
    return Agg("struct", [VecObj([])], name="BTreeMap")


def btree_entries(m):
    m = deref_val(m)
    if not (isinstance(m, Agg) and m.name == "BTreeMap"):
        raise Unsupported(f"BTreeMap expected, got {m!r}")
    return m.fields[0].elems


@model(r"^(?:std::collections::)?BTreeMap::<(.*)>::(new|insert|len|is_empty|lower_bound|upper_bound|get|contains_key|first_key_value|last_key_value)(::<.*>)?$")
def m_btreemap(ex, st, fr, path, args, m):
    op = m.group(2)
    if op == "new":
        return btree_new()
    ents = btree_entries(args[0])
    if op == "len":
        return I("usize", len(ents))
    if op == "is_empty":
        return I("bool", len(ents) == 0)
    if op == "insert":
        key, val = args[1], args[2]
        pos = len(ents)
        for k, e in enumerate(ents):
            c = bytes_cmp(ex, st, key, e.fields[0])
            if c == 0:
                old = e.fields[1]
                e.fields[1] = val
                return some(old)
            if c < 0:
                pos = k
                break
        ents.insert(pos, Agg("tuple", [key, val]))
        return NONE()
    if op in ("lower_bound", "upper_bound"):
        bound = args[1]
        r = args[0]
        if bound.variant == "Unbounded":
            idx = 0 if op == "lower_bound" else len(ents)
        else:
            key = bound.fields[0]
            idx = len(ents)
            for k, e in enumerate(ents):
                c = bytes_cmp(ex, st, e.fields[0], key)
                if op == "lower_bound":
                    hit = c >= 0 if bound.variant == "Included" else c > 0      # first entry not below the bound
                else:
                    hit = c > 0 if bound.variant == "Included" else c >= 0
                if hit:
                    idx = k
                    break
        return Agg("struct", [r, I("usize", idx)], name="BTreeCursor")
    if op in ("get", "contains_key"):
        key = args[1]
        for k, e in enumerate(ents):
            if bytes_cmp(ex, st, e.fields[0], key) == 0:
                if op == "contains_key":
                    return I("bool", 1)
                r = args[0]
                return some(Ref(r.cell, r.path + (("f", 0), ("i", k), ("f", 1))))
        return I("bool", 0) if op == "contains_key" else NONE()
    return NotImplemented


@model(r"^(?:std::collections::)?btree_map::Cursor::<.*>::(peek_next|peek_prev)$")
def m_btree_cursor(ex, st, fr, path, args, m):
    cur = deref_val(args[0])
    mapref, idx = cur.fields
    ents = btree_entries(mapref)
    k = idx.v if m.group(1) == "peek_next" else idx.v - 1
    if 0 <= k < len(ents):
        base = mapref.path + (("f", 0), ("i", k))
        return some(Agg("tuple", [Ref(mapref.cell, base + (("f", 0),)), Ref(mapref.cell, base + (("f", 1),))]))
    return NONE()


# ------------------------------------------------------------------------------------------------
# HashMap<String, V> as an association list in insertion order (keys: byte strings whose comparison forks on symbolic bytes).
# The *iteration order* of a real HashMap is unspecified: obligations that iterate a map state the order they explored.
#   value = Agg("struct", [VecObj([Agg tuple (key VecObj, val)])], name="HashMap")
# ------------------------------------------------------------------------------------------------
def M_split_last(generics):
    """last top-level generic argument of `'_, K, V`"""
    depth = 0
    cur = ""
    parts = []
    for ch in generics:
        if ch in "<([":
            depth += 1
        elif ch in ">)]":
            depth -= 1
        if ch == "," and depth == 0:
            parts.append(cur.strip())
            cur = ""
        else:
            cur += ch
    parts.append(cur.strip())
    return parts[-1]


def hashmap_new(pairs=()):
    return Agg("struct", [VecObj([Agg("tuple", [k, v]) for k, v in pairs])], name="HashMap")


def hashmap_entries(m):
    m = deref_val(m)
    while isinstance(m, Ref):
        m = deref_val(m)
    if not (isinstance(m, Agg) and m.name == "HashMap"):
        raise Unsupported(f"HashMap expected, got {m!r}")
    return m.fields[0].elems


def _hashmap_ref(r):
    """reference to the HashMap aggregate itself (peels references to references)"""
    v = deref_val(r)
    while isinstance(v, Ref):
        r = v
        v = deref_val(r)
    return r


def _hashmap_find(ex, st, ents, key):
    kv = key
    while isinstance(kv, Ref) and isinstance(deref_val(kv), (I, Ref)):
        kv = deref_val(kv)
    for k, e in enumerate(ents):
        if isinstance(e.fields[0], I):
            if isinstance(kv, I) and ex.decide(st, binop("Eq", e.fields[0], kv)):
                return k
            continue
        if bytes_cmp(ex, st, e.fields[0], key) == 0:
            return k
    return None


@model(r"^(?:std::collections::)?HashMap::<(.*)>::(new|with_capacity|insert|len|is_empty|get|get_mut|contains_key|entry|values_mut|values|keys|iter|iter_mut|remove|clear)(::<.*>)?$")
def m_hashmap(ex, st, fr, path, args, m):
    op = m.group(2)
    if op in ("new", "with_capacity"):
        return hashmap_new()
    ents = hashmap_entries(args[0])
    r = _hashmap_ref(args[0])
    if op == "len":
        return I("usize", len(ents))
    if op == "is_empty":
        return I("bool", len(ents) == 0)
    if op == "clear":
        del ents[:]
        return UNIT
    if op == "insert":
        k = _hashmap_find(ex, st, ents, args[1])
        if k is not None:
            old = ents[k].fields[1]
            ents[k].fields[1] = args[2]
            return some(old)
        ents.append(Agg("tuple", [args[1], args[2]]))
        return NONE()
    if op == "remove":
        k = _hashmap_find(ex, st, ents, args[1])
        if k is None:
            return NONE()
        return some(ents.pop(k).fields[1])
    if op in ("get", "get_mut", "contains_key"):
        k = _hashmap_find(ex, st, ents, args[1])
        if op == "contains_key":
            return I("bool", k is not None)
        if k is None:
            return NONE()
        return some(Ref(r.cell, r.path + (("f", 0), ("i", k), ("f", 1)), None, False, op == "get_mut"))
    if op == "entry":
        return Agg("struct", [r, args[1]], name="HashMapEntry")
    if op in ("values_mut", "values", "keys", "iter", "iter_mut"):
        return IterV("hashmap", ref=r, pos=0, what=op)
    return NotImplemented


@model(r"^(?:std::collections::)?hash_map::Entry::<(.*)>::(or_insert_with|or_insert|or_default)(::<.*>)?$")
def m_hashmap_entry(ex, st, fr, path, args, m):
    op = m.group(2)
    ent = args[0]
    r, key = ent.fields
    ents = hashmap_entries(r)
    k = _hashmap_find(ex, st, ents, key)
    if k is None:
        if op == "or_insert":
            val = args[1]
        elif op == "or_insert_with":
            val = ex.call_closure(st, fr, args[1], [])
        else:
            vt = M_split_last(m.group(1))
            if re.match(r"^(?:std::collections::)?HashMap<", vt):
                val = hashmap_new()
            elif re.match(r"^(?:std::vec::)?Vec<", vt):
                val = VecObj([], vt)
            else:
                # a crate type with (derived) Default: run the real impl
                dflt = ex.resolve_method(vt.split("::")[-1], "Default", "default")
                if dflt is None:
                    raise Unsupported("hash_map::Entry::or_default for value type " + vt)
                val = ex.call_sync(st, dflt[0], [], dict(dflt[1]))
        # the closure may have forked; re-read the entries of the (possibly restored) state
        ents = hashmap_entries(r)
        ents.append(Agg("tuple", [key, val]))
        k = len(ents) - 1
    return Ref(r.cell, r.path + (("f", 0), ("i", k), ("f", 1)), None, False, True)


# RwLock / Mutex in *sequential* code: the lock is a box around its value (no contention, no poisoning: stated assumption)
@model(r"^(?:std::sync::)?(RwLock|Mutex)::<(.*)>::(new|read|write|lock|into_inner)$")
def m_lock(ex, st, fr, path, args, m):
    op = m.group(3)
    if op == "new":
        return Agg("struct", [args[0]], name="Lock")
    if op == "into_inner":
        return ok(args[0].fields[0])
    r = args[0]
    v = deref_val(r)
    while isinstance(v, Ref):
        r = v
        v = deref_val(r)
    if not (isinstance(v, Agg) and v.name == "Lock"):
        raise Unsupported(f"lock expected, got {v!r}")
    return ok(Agg("struct", [Ref(r.cell, r.path + (("f", 0),), None, False, op != "read")], name="LockGuard"))


@model(r"^<(?:std::sync::)?(RwLockReadGuard|RwLockWriteGuard|MutexGuard)<.*> as (?:std::ops::)?(Deref|DerefMut)>::(deref|deref_mut)$")
def m_guard_deref(ex, st, fr, path, args, m):
    g = deref_val(args[0])
    while isinstance(g, Ref):
        g = deref_val(g)
    if not (isinstance(g, Agg) and g.name == "LockGuard"):
        return NotImplemented
    return g.fields[0]


@model(r"^<(.*) as (?:itertools::)?Itertools>::sorted_by::<")
def m_itertools_sorted_by(ex, st, fr, path, args, m):
    """collect + stable insertion sort driven by the caller's comparison closure (itertools::sorted_by = Vec::sort_by)"""
    it = as_iter(args[0])
    if it is None:
        return NotImplemented
    it = iter_clone(it)
    items = []
    while True:
        o = iter_next(ex, st, it)
        if o.variant == "None":
            break
        items.append(o.fields[0])
    out = []
    for x in items:
        pos = len(out)
        for k in range(len(out)):
            o = ex.call_closure(st, fr, args[1], [Ref(Cell(x)), Ref(Cell(out[k]))])
            if o.variant == "Less":
                pos = k
                break
        out.insert(pos, x)
    cell = Cell(VecObj(out))
    return IterV("slice_val", ref=Ref(cell, (), (0, len(out))), pos=0, end=len(out))


@model(r"^<(.*) as (?:std::iter::)?Iterator>::scan::<")
def m_iter_scan(ex, st, fr, path, args, m):
    """eager scan: the closure is run over the whole input now (the adaptor is consumed immediately by every caller here)"""
    it = as_iter(args[0])
    if it is None:
        return NotImplemented
    it = iter_clone(it)
    state = Cell(args[1])
    out = []
    while True:
        o = iter_next(ex, st, it)
        if o.variant == "None":
            break
        r = ex.call_closure(st, fr, args[2], [Ref(state, (), None, False, True), o.fields[0]])
        if r.variant == "None":
            break
        out.append(r.fields[0])
    cell = Cell(VecObj(out))
    return IterV("slice_val", ref=Ref(cell, (), (0, len(out))), pos=0, end=len(out))


@model(r"^(?:std::sync::)?Arc::<(.*)>::new$")
def m_arc_new(ex, st, fr, path, args, m):
    return Ref(Cell(args[0]), (), None, False, False)


@model(r"^(?:std::sync::atomic::)?Atomic(Bool|Usize|U64)::(new|load|store|fetch_add)$")
def m_atomic(ex, st, fr, path, args, m):
    from .interp import Loc
    op = m.group(2)
    if op == "new":
        return Agg("struct", [args[0]], name="Atomic")
    a = deref_val(args[0])
    if isinstance(a, Ref):
        a = deref_val(a)
    if op == "load":
        return a.fields[0]
    if op == "fetch_add":
        old_v = a.fields[0]
        a.fields[0] = binop("Add", old_v, args[1])      # atomics wrap
        return old_v
    a.fields[0] = args[1]
    return UNIT


# ------------------------------------------------------------------------------------------------
# `dyn Data` (engine::data_types::Data): the closed set of implementors the storage layer uses, as tagged sequences.
#   Vec<T>            -> VecObj (ty = element type)
#   NullableVec<T>    -> Agg("struct", [VecObj data, VecObj present], name="NullableVec")
# ------------------------------------------------------------------------------------------------
ENC_NAME = {"u8": "U8", "u16": "U16", "u32": "U32", "u64": "U64", "i64": "I64", "f64": "F64", "of64": "F64", "str": "Str", "usize": "USize"}


def data_view(recv):
    """(cell, path, data VecObj, present VecObj|None, elem type)"""
    r = recv
    v = deref_val(r)
    while isinstance(v, Ref):
        r = v
        v = deref_val(r)
    if isinstance(v, VecObj):
        ty = elem_ty(v)
        return r, v, None, ty
    if isinstance(v, Agg) and v.name == "NullableVec":
        return r, v.fields[0], v.fields[1], elem_ty(v.fields[0])
    raise Unsupported(f"dyn Data receiver {v!r}")


def elem_ty(v):
    t = (v.ty or "").strip()
    t = re.sub(r"^(?:ordered_float::)?OrderedFloat<f64>$", "f64", t)
    t = {"&str": "str", "&'a str": "str"}.get(t, t)
    if t in ENC_NAME:
        return t
    if v.elems:
        e = v.elems[0]
        if isinstance(e, I):
            return e.ty
        if isinstance(e, Agg) and e.name == "OrderedFloat":
            return "f64"
        if isinstance(e, Ref) and e.is_str:
            return "str"
    return t or "?"


def boxed(v):
    return Ref(Cell(v), (), None, False, True)


RUST_ELEM = {"u8": "u8", "u16": "u16", "u32": "u32", "u64": "u64", "i64": "i64", "usize": "usize", "f64": "ordered_float::OrderedFloat<f64>", "str": "&'a str"}


def _dyn_real_impl(ex, st, self_ty, op, args):
    """dispatch a `dyn Data` call to the real impl method (executed from its MIR) for the receiver's concrete type"""
    r = ex.resolve_method(self_ty, "Data", op)
    if r is None:
        raise Unsupported(f"no impl Data for {self_ty} with {op} in the current source")
    fn, binding = r
    return ex.call_sync(st, fn, list(args), dict(binding))


@model(r"^<dyn (?:engine::data_types::(?:data::)?)?Data(?:<.*>)? as (?:engine::data_types::(?:data::)?)?Data(?:<.*>)?>::(\w+)$")
def m_dyn_data(ex, st, fr, path, args, m):
    op = m.group(1)
    v0 = deref_val(args[0])
    r0 = args[0]
    while isinstance(v0, Ref):
        r0 = v0
        v0 = deref_val(r0)
    if isinstance(v0, I):
        # `impl Data for usize`: the all-NULL column
        if op == "len":
            return v0
        if op == "get_type":
            return Agg("enum", [], name="EncodingType", variant="Null")
        if op == "get_raw":
            return _dyn_real_impl(ex, st, "usize", op, [r0] + list(args[1:]))
        return NotImplemented
    r, data, present, ty = data_view(args[0])
    if op == "get_raw":
        et = RUST_ELEM.get(ty)
        if et is None:
            raise Unsupported("get_raw on Data<" + ty + ">")
        return _dyn_real_impl(ex, st, f"NullableVec<{et}>" if present is not None else f"Vec<{et}>", op, [r] + list(args[1:]))
    n = len(data.elems)
    if op == "len":
        return I("usize", n)
    if op == "get_type":
        name = ENC_NAME.get(ty)
        if name is None:
            raise Unsupported("get_type of Data<" + ty + ">")
        return Agg("enum", [], name="EncodingType", variant=("Nullable" + name) if present is not None else name)
    if op == "slice_box":
        lo = ex.concretize(st, args[1], bound=n + 2)
        hi = min(ex.concretize(st, args[2], bound=n + 2), n)
        nd = VecObj([deep_clone(e) for e in data.elems[lo:hi]], data.ty or ty)
        if present is None:
            return boxed(nd)
        # NullableVec::slice_box re-bases the bitmap
        k = hi - lo
        bits = []
        for b in range((k + 7) // 8):
            acc = I("u8", 0)
            for j in range(8):
                i = lo + 8 * b + j
                if i < hi and i // 8 < len(present.elems):
                    bitv = binop("BitAnd", binop("Shr", present.elems[i // 8], I("u8", i % 8)), I("u8", 1))
                    acc = binop("BitOr", acc, binop("Shl", bitv, I("u8", j)))
            bits.append(acc)
        return boxed(Agg("struct", [nd, VecObj(bits, "u8")], name="NullableVec"))
    cm = re.match(r"cast_ref_(u8|u16|u32|u64|i64|f64|str|usize|null_map)$", op)
    if cm:
        want = cm.group(1)
        v = deref_val(r)
        if want == "null_map":
            if present is None:
                raise Panic("cast_ref_null_map on non-nullable data")
            return Ref(r.cell, r.path + (("f", 1),), (0, len(present.elems)))
        if want != ty:
            raise Panic(f"type error: cast_ref_{want} on Data<{ty}>")
        if present is None:
            return Ref(r.cell, r.path, (0, n))
        return Ref(r.cell, r.path + (("f", 0),), (0, n))
    if op == "make_nullable":
        if present is not None:
            raise Unsupported("make_nullable on nullable data")
        pel, plo, phi = seq_of(args[1])
        nd = VecObj(list(data.elems), data.ty or ty)
        return boxed(Agg("struct", [nd, VecObj([deep_clone(e) for e in pel[plo:phi]], "u8")], name="NullableVec"))
    return NotImplemented


@model(r"^alloc::alloc::exchange_malloc$|^std::alloc::exchange_malloc$")
def m_exchange_malloc(ex, st, fr, path, args, m):
    return Ref(Cell(UNINIT), (), None, False, True)


@model(r"^<Box<dyn (?:engine::data_types::(?:data::)?)?Data(?:<.*>)?> as (?:mem_store::column::)?DataSource>::(len|encoding_type)$")
def m_boxed_data_source(ex, st, fr, path, args, m):
    v0 = deref_val(args[0])
    while isinstance(v0, Ref):
        v0 = deref_val(v0)
    if isinstance(v0, I) and m.group(1) == "len":
        return v0
    r, data, present, ty = data_view(args[0])
    if m.group(1) == "len":
        return I("usize", len(data.elems))
    return NotImplemented


@model(r"^<(?:std::string::)?String as (?:std::string::)?ToString>::to_string$")
def m_string_to_string(ex, st, fr, path, args, m):
    v = vec_of(args[0])
    return VecObj(list(v.elems), "u8", is_str=True)


@model(r"^(?:std::slice|core::slice)::<impl \[(.*)\]>::(sort_by|sort_unstable_by)::<")
def m_sort_by(ex, st, fr, path, args, m):
    """insertion sort driven by the caller's comparison closure (stable, like slice::sort_by).  std's sorting algorithm
    itself is trusted; only the comparator is executed."""
    el, lo, hi = seq_of(args[0])
    items = list(el[lo:hi])
    unstable = m.group(2) == "sort_unstable_by"
    out = []
    for x in items:
        pos = len(out)
        for k in range(len(out)):
            # sort_by: strictly-less moves before; equal stays after (stability).
            # sort_unstable_by: the contract allows any order among equal elements; the model picks the *reversed* order of
            # ties (a legal outcome), so that code which needs stability but calls the unstable sort is visible.
            o = ex.call_closure(st, fr, args[1], [Ref(Cell(x)), Ref(Cell(out[k]))])
            if o.variant == "Less" or (unstable and o.variant == "Equal"):
                pos = k
                break
        out.insert(pos, x)
    el[lo:hi] = out
    return UNIT


@model(r"^(?:core::char::methods::<impl char>|char::methods::<impl char>|char)::(is_alphanumeric|is_lowercase|is_uppercase|is_alphabetic|is_numeric|is_ascii_digit|is_ascii_hexdigit|is_whitespace|is_ascii_alphanumeric|is_ascii_alphabetic|is_ascii_lowercase|is_ascii_uppercase)$")
def m_char_class(ex, st, fr, path, args, m):
    c = args[0]
    if isinstance(c, Ref):      # is_ascii_* take &self
        c = deref_val(c)
    op = m.group(1)
    if not ex.decide(st, binop("Lt", c, I("char", 128))):
        raise Unsupported("char classification of non-ASCII characters (Unicode tables are not modelled)")
    def rng(a, b):
        return band(binop("Ge", c, I("char", ord(a))), binop("Le", c, I("char", ord(b))))
    def bor2(*xs):
        return bnot(band(*[bnot(x) for x in xs]))
    lower, upper, digit = rng("a", "z"), rng("A", "Z"), rng("0", "9")
    if op in ("is_alphanumeric", "is_ascii_alphanumeric"):
        return bor2(lower, upper, digit)
    if op == "is_ascii_alphabetic":
        return bor2(lower, upper)
    if op == "is_ascii_lowercase":
        return lower
    if op == "is_ascii_uppercase":
        return upper
    if op == "is_alphabetic":
        return bor2(lower, upper)
    if op == "is_lowercase":
        return lower
    if op == "is_uppercase":
        return upper
    if op in ("is_numeric", "is_ascii_digit"):
        return digit
    if op == "is_ascii_hexdigit":
        return bor2(digit, rng("a", "f"), rng("A", "F"))
    return NotImplemented


from . import capnp_model  # noqa: E402,F401  (registers the Cap'n Proto accessor models)
