"""Cap'n Proto accessor layer as an environment model.

What is executed for real: the hand-written (de)serialisers of LocustDB (`PartitionSegment::{serialize,deserialize}` ...) from their
MIR.  What is modelled: the capnp *runtime* and the *generated accessors* they call (`set_x`, `get_x`, `init_x`, `which`, list
builders/readers, message building and packing).  The model is driven by the `.capnp` schema files of the tree under test:
a struct instance is a record; `init_x()` allocates a fresh zeroed value (and selects the union member), `set_x(v)` stores (and
selects), `get_x()` reads what was stored or the schema default, `which()` returns the member selected last.  The packed wire
format is not modelled: `write_message` carries the record tree as one token and `read_message` hands it back.

Assumption (stated in every obligation using this model): capnpc-generated accessors and the capnp runtime implement exactly
this record semantics, and serialize_packed is lossless.
"""
import glob
import os
import re

from .values import I, Agg, VecObj, Cell, Ref, Opaque, UNIT, INT_W
from .models import model, Unsupported, Panic, deref_val, seq_of, some, ok, NONE, IterV, deep_clone


# ---------------------------------------------------------------------------------------------------------------
# schema
# ---------------------------------------------------------------------------------------------------------------
def snake(name):
    out = ""
    for i, ch in enumerate(name):
        if ch.isupper() and i > 0:
            out += "_"
        out += ch.lower()
    return out


def camel_variant(name):
    return name[:1].upper() + name[1:]


PRIMS = {"UInt8": "u8", "UInt16": "u16", "UInt32": "u32", "UInt64": "u64", "Int8": "i8", "Int16": "i16", "Int32": "i32",
         "Int64": "i64", "Float64": "f64", "Float32": "f32"}


class Node:
    def __init__(self, path):
        self.path = path
        self.fields = {}        # rust name -> (type, in_union)
        self.order = []         # rust names in declaration order
        self.union = []         # rust names of union members in declaration order (= discriminant order)
        self.ordinals = {}


class Schema:
    def __init__(self, text):
        self.structs = {}       # path tuple of snake names -> Node
        self.struct_by_name = {}
        self.enums = {}         # Name -> [Variant, ...]
        text = re.sub(r"#[^\n]*", "", text)
        self.toks = re.findall(r"[A-Za-z_][A-Za-z_0-9.]*|@0x[0-9a-fA-F]+|@\d+|[{}();:=,$]|\"[^\"]*\"|-?\d+(?:\.\d+)?", text)
        self.i = 0
        self.parse_top()

    def peek(self):
        return self.toks[self.i] if self.i < len(self.toks) else None

    def next(self):
        t = self.toks[self.i]
        self.i += 1
        return t

    def expect(self, t):
        g = self.next()
        if g != t:
            raise Unsupported(f"capnp schema: expected {t!r}, got {g!r}")

    def skip_to_semicolon(self):
        while self.next() != ";":
            pass

    def parse_top(self):
        while self.peek() is not None:
            t = self.next()
            if t == "struct":
                self.parse_struct(())
            elif t == "enum":
                self.parse_enum()
            elif t.startswith("@0x"):
                self.expect(";")
            elif t in ("using", "annotation", "$", "const"):
                self.skip_to_semicolon()
            else:
                raise Unsupported(f"capnp schema: unexpected token {t!r}")

    def parse_enum(self):
        name = self.next()
        self.expect("{")
        vs = []
        while self.peek() != "}":
            v = self.next()
            self.next()          # @n
            self.expect(";")
            vs.append(camel_variant(v))
        self.expect("}")
        self.enums[name] = vs

    def parse_struct(self, parent):
        name = self.next()
        if self.peek() and self.peek().startswith("@0x"):
            self.next()
        path = parent + (snake(name),)
        node = Node(path)
        self.structs[path] = node
        self.struct_by_name[name] = path
        self.expect("{")
        self.parse_members(node, in_union=False)

    def parse_type(self):
        t = self.next()
        if t == "List":
            self.expect("(")
            inner = self.parse_type()
            self.expect(")")
            return ("list", inner)
        if t in PRIMS:
            return ("prim", PRIMS[t])
        if t == "Bool":
            return ("bool",)
        if t == "Void":
            return ("void",)
        if t == "Text":
            return ("text",)
        if t == "Data":
            return ("data",)
        return ("named", t)

    def parse_members(self, node, in_union):
        while True:
            t = self.next()
            if t == "}":
                return
            if t == "struct":
                self.parse_struct(node.path)
                continue
            if t == "enum":
                self.parse_enum()
                continue
            if t == "union":
                self.expect("{")
                self.parse_members(node, in_union=True)
                continue
            name = t
            nt = self.next()
            if nt.startswith("@"):
                self.expect(":")
                ty = self.parse_type()
                if self.peek() == "=":
                    raise Unsupported("capnp schema: explicit default values are not modelled")
                self.expect(";")
                r = snake(name)
                node.fields[r] = (ty, in_union, name)
                node.order.append(r)
                node.ordinals[r] = int(nt[1:])
                if in_union:
                    node.union.append(r)
                continue
            if nt == ":":
                kind = self.next()
                if kind not in ("union", "group"):
                    raise Unsupported(f"capnp schema: unexpected {kind!r} after ':'")
                self.expect("{")
                r = snake(name)
                sub = Node(node.path + (r,))
                self.structs[sub.path] = sub
                self.parse_members(sub, in_union=(kind == "union"))
                node.fields[r] = (("group", sub.path), in_union, name)
                node.order.append(r)
                if in_union:
                    node.union.append(r)
                continue
            raise Unsupported(f"capnp schema: cannot parse member {name!r} {nt!r}")

    def resolve(self, ty):
        if ty[0] == "named":
            if ty[1] in self.enums:
                return ("enum", ty[1])
            if ty[1] in self.struct_by_name:
                return ("struct", self.struct_by_name[ty[1]])
            raise Unsupported(f"capnp schema: unknown type {ty[1]}")
        if ty[0] == "list":
            return ("list", self.resolve(ty[1]))
        return ty


_SCHEMAS = {}


def schema_for(ex, module):
    """module: e.g. partition_segment_capnp"""
    root = ex.roots.get("ser") or ex.roots.get("main")
    key = (root, module)
    if key not in _SCHEMAS:
        base = module[:-len("_capnp")]
        cands = glob.glob(os.path.join(root, "locustdb-serialization", "schemas", base + ".capnp"))
        if not cands:
            raise Unsupported(f"capnp schema for {module} not found in the tree under test")
        _SCHEMAS[key] = Schema(open(cands[0]).read())
    return _SCHEMAS[key]


# ---------------------------------------------------------------------------------------------------------------
# records
# ---------------------------------------------------------------------------------------------------------------
def new_rec(module, path):
    return Agg("struct", [VecObj([Agg("tuple", [Opaque("?type"), Opaque(module + "::" + "::".join(path))])])], name="CapStruct")


def rec_of(r):
    v = deref_val(r)
    while isinstance(v, Ref):
        r = v
        v = deref_val(r)
    if not (isinstance(v, Agg) and v.name == "CapStruct"):
        raise Unsupported(f"capnp record expected, got {v!r}")
    return r, v


def rec_get(rec, key):
    for k, e in enumerate(rec.fields[0].elems):
        if e.fields[0].tag == key:
            return k, e.fields[1]
    return None, None


def rec_set(rec, key, val):
    k, _ = rec_get(rec, key)
    if k is None:
        rec.fields[0].elems.append(Agg("tuple", [Opaque(key), val]))
        return len(rec.fields[0].elems) - 1
    rec.fields[0].elems[k].fields[1] = val
    return k


def field_ref(r, k, mut=True):
    return Ref(r.cell, r.path + (("f", 0), ("i", k), ("f", 1)), None, False, mut)


def rec_type(rec):
    _, t = rec_get(rec, "?type")
    module, rest = t.tag.split("::", 1)
    return module, tuple(rest.split("::"))


def default_value(sch, module, ty):
    ty = sch.resolve(ty)
    k = ty[0]
    if k == "prim":
        return I(ty[1], 0)
    if k == "bool":
        return I("bool", 0)
    if k == "void":
        return UNIT
    if k in ("text",):
        return VecObj([], "u8", is_str=True)
    if k == "data":
        return VecObj([], "u8")
    if k == "enum":
        return Agg("enum", [], name="capnp:" + ty[1], variant=sch.enums[ty[1]][0])
    if k == "struct":
        return new_rec(module, ty[1])
    if k == "group":
        return new_rec(module, ty[1])
    if k == "list":
        return VecObj([], None)
    raise Unsupported(f"capnp default of {ty}")


def copy_in(sch, module, ty, v):
    """value stored by a setter (copied out of the caller's memory)"""
    ty = sch.resolve(ty)
    k = ty[0]
    if k in ("prim", "bool", "enum"):
        return v
    if k == "void":
        return UNIT
    if k in ("text", "data"):
        el, lo, hi = seq_of(v)
        return VecObj(list(el[lo:hi]), "u8", is_str=(k == "text"))
    if k == "list":
        el, lo, hi = seq_of(v)
        inner = sch.resolve(ty[1])
        if inner[0] in ("text", "data"):
            out = []
            for s in el[lo:hi]:
                e2, l2, h2 = seq_of(s)
                out.append(VecObj(list(e2[l2:h2]), "u8", is_str=(inner[0] == "text")))
            return VecObj(out)
        if inner[0] in ("prim", "bool"):
            return VecObj([x.fields[0] if isinstance(x, Agg) and x.name == "OrderedFloat" else x for x in el[lo:hi]], inner[1] if inner[0] == "prim" else "bool")
        return VecObj([deep_clone(deref_val(x) if isinstance(x, Ref) else x) for x in el[lo:hi]])
    if k == "struct":
        return deep_clone(rec_of(v)[1])
    raise Unsupported(f"capnp setter for {ty}")


_SIG = {}


def ret_type(ex, module, path, kind, method):
    key = (id(ex.dumps.get("ser")), module, path, kind, method)
    if key in _SIG:
        return _SIG[key]
    d = ex.dumps.get("ser")
    if d is None:
        raise Unsupported("capnp accessors need the MIR of locustdb-serialization (dump 'ser')")
    # rustc prints a unique *suffix* of the module path; the impl span names the generated file (= the schema module)
    rx = re.compile(r"^(?:[\w:]*::)?" + re.escape(path[-1]) + r"::<impl at [^>]*/" + re.escape(module) + r"\.rs:[^>]*>::" + re.escape(method) + r"$")
    full = module + "::" + "::".join(path)
    found = None
    for name, fs in d.functions.items():
        if rx.match(name) and full.endswith(name.split("::<impl at ")[0]):
            for f in fs:
                hm = re.search(r"\(_1: (?:&mut |&)?([^,)]*)", f.header)
                if hm and ("::" + kind) in hm.group(1):
                    found = f.header
    if found is None:
        raise Unsupported(f"generated accessor {module}::{'::'.join(path)}::{kind}::{method} not found in the MIR of locustdb-serialization")
    rt = found.rsplit("->", 1)[1].strip().rstrip("{").strip()
    _SIG[key] = rt
    return rt


def wrap(rt, v):
    if re.match(r"^(?:std::result::|capnp::)?Result<", rt):
        return ok(v)
    return v


# rustc prints a unique suffix of the path: inside locustdb-serialization the schema module may be missing
ACC = re.compile(r"^(?:locustdb_serialization::)?(?:(\w+_capnp)::)?((?:[a-z_0-9]+::)+)(Builder|Reader)(?:::<[^>]*>)?::(\w+)(?:::<.*>)?$")


def all_modules(ex):
    root = ex.roots.get("ser") or ex.roots.get("main")
    return [os.path.basename(p)[:-len(".capnp")] + "_capnp" for p in glob.glob(os.path.join(root, "locustdb-serialization", "schemas", "*.capnp"))
            if os.path.basename(p) != "rust.capnp"]


def find_struct(ex, module, segs):
    """(module, full path) of the schema struct a (possibly abbreviated) Rust path designates"""
    hits = []
    for mod in ([module] if module else all_modules(ex)):
        sch = schema_for(ex, mod)
        for p in sch.structs:
            if p[-len(segs):] == segs and (module is None or p == segs or True):
                if module is not None and p != segs:
                    continue
                hits.append((mod, p))
    if len(hits) == 1:
        return hits[0]
    return None


@model(ACC.pattern)
def m_capnp_accessor(ex, st, fr, path, args, m):
    module, segs, kind, method = m.group(1), tuple(m.group(2).strip(":").split("::")), m.group(3), m.group(4)
    if not args:
        return NotImplemented
    v0 = deref_val(args[0])
    while isinstance(v0, Ref):
        v0 = deref_val(v0)
    if not (isinstance(v0, Agg) and v0.name == "CapStruct"):
        return NotImplemented
    r, rec = rec_of(args[0])
    tm, tp = rec_type(rec)
    if tp[-len(segs):] != segs or (module is not None and (module, segs) != (tm, tp)):
        raise Unsupported(f"capnp accessor {module or '?'}::{'::'.join(segs)}::{method} applied to a {tm}::{'::'.join(tp)} record")
    module, segs = tm, tp
    sch = schema_for(ex, module)
    node = sch.structs[segs]
    if method in ("reborrow", "reborrow_as_reader", "into_reader"):
        return r
    if method == "which":
        if not node.union:
            return NotImplemented
        _, w = rec_get(rec, "?which")
        member = w.tag if w is not None else node.union[0]      # discriminant 0 = the member declared first
        ty, _, cname = node.fields[member]
        ty = sch.resolve(ty)
        k, cur = rec_get(rec, member)
        if cur is None:
            cur = default_value(sch, module, ty)
            k = rec_set(rec, member, cur)
        if ty[0] in ("prim", "bool"):
            payload = cur
        elif ty[0] == "void":
            payload = UNIT
        elif ty[0] == "group":
            payload = field_ref(r, k, kind == "Builder")
        elif ty[0] == "enum":
            payload = ok(cur)
        else:
            payload = ok(field_ref(r, k, kind == "Builder"))
        rt = ret_type(ex, module, segs, kind, "which")
        return wrap(rt, Agg("enum", [payload], name=f"capnpwhich:{node.union.index(member)}", variant=camel_variant(cname)))
    mm = re.match(r"^(set|get|init|has)_(\w+)$", method)
    if not mm or mm.group(2) not in node.fields:
        return NotImplemented
    op, f = mm.group(1), mm.group(2)
    ty, in_union, _ = node.fields[f]
    ty = sch.resolve(ty)
    rt = ret_type(ex, module, segs, kind, method)
    if op == "has":
        return I("bool", rec_get(rec, f)[0] is not None)
    if op == "set":
        val = copy_in(sch, module, ty, args[1])
        rec_set(rec, f, val)
        if in_union:
            rec_set(rec, "?which", Opaque(f))
        return wrap(rt, UNIT)
    if op == "init":
        if ty[0] in ("struct", "group"):
            val = new_rec(module, ty[1])
        elif ty[0] == "list":
            n = ex.concretize(st, args[1], bound=64)
            inner = ty[1]
            val = VecObj([default_value(sch, module, inner) for _ in range(n)], inner[1] if inner[0] == "prim" else None)
        elif ty[0] in ("text", "data"):
            n = ex.concretize(st, args[1], bound=64)
            val = VecObj([I("u8", 0)] * n, "u8", is_str=(ty[0] == "text"))
        else:
            return NotImplemented
        k = rec_set(rec, f, val)
        if in_union:
            rec_set(rec, "?which", Opaque(f))
        return wrap(rt, field_ref(r, k, True))
    # get
    k, cur = rec_get(rec, f)
    if cur is None:
        cur = default_value(sch, module, ty)
        k = rec_set(rec, f, cur)
    if ty[0] in ("prim", "bool", "enum"):
        return wrap(rt, cur)
    if ty[0] == "void":
        return wrap(rt, UNIT)
    ref = field_ref(r, k, kind == "Builder")
    if ty[0] in ("text", "data"):
        ref = Ref(ref.cell, ref.path, (0, len(cur.elems)), ty[0] == "text", False)
    return wrap(rt, ref)


def _group_ordinal(sch, node, f):
    ty = node.fields[f][0]
    sub = sch.structs[ty[1]]
    return min([sub.ordinals[x] for x in sub.order if x in sub.ordinals] or [1 << 30])


# ---------------------------------------------------------------------------------------------------------------
# runtime: messages, lists, text
# ---------------------------------------------------------------------------------------------------------------
@model(r"^capnp::message::Builder::<.*>::new_default$|^capnp::message::Builder::<.*>::new$")
def m_msg_new(ex, st, fr, path, args, m):
    return Agg("struct", [UNIT], name="CapMessage")


@model(r"^capnp::message::Builder::<.*>::init_root::<(?:'_, )?(?:locustdb_serialization::)?((?:\w+::)+)Builder(?:<[^>]*>)?>$")
def m_msg_init_root(ex, st, fr, path, args, m):
    parts = m.group(1).strip(":").split("::")
    module = parts[0] if parts[0].endswith("_capnp") else None
    hit = find_struct(ex, module, tuple(parts[1:] if module else parts))
    if hit is None:
        raise Unsupported("init_root: cannot identify the schema struct of " + m.group(1))
    module, segs = hit
    msg = deref_val(args[0])
    msg.fields[0] = new_rec(module, segs)
    return Ref(args[0].cell, args[0].path + (("f", 0),), None, False, True)


@model(r"^capnp::serialize_packed::write_message::<|^capnp::serialize::write_message::<")
def m_write_message(ex, st, fr, path, args, m):
    buf = deref_val(args[0])
    while isinstance(buf, Ref):
        buf = deref_val(buf)
    msg = deref_val(args[1])
    while isinstance(msg, Ref):
        msg = deref_val(msg)
    buf.elems.append(deep_clone(msg))
    return ok(UNIT)


@model(r"^capnp::serialize_packed::read_message::<|^capnp::serialize::read_message::<|^capnp::serialize_packed::read_message_no_alloc::<")
def m_read_message(ex, st, fr, path, args, m):
    el, lo, hi = seq_of(args[0])
    if hi - lo != 1 or not (isinstance(el[lo], Agg) and el[lo].name == "CapMessage"):
        raise Unsupported("read_message on bytes that were not produced by the modelled write_message")
    return ok(deep_clone(el[lo]))


@model(r"(?:^|::)default_reader_options$")
def m_reader_options(ex, st, fr, path, args, m):
    return Opaque("capnp reader options")


@model(r"^capnp::message::Reader(?:::<.*>)?::get_root::<")
def m_msg_get_root(ex, st, fr, path, args, m):
    return ok(Ref(args[0].cell, args[0].path + (("f", 0),), None, False, False))


@model(r"^capnp::(struct_list|primitive_list|text_list|data_list|enum_list)::(Builder|Reader)(?:::<.*>)?::(reborrow|len|get|set|iter|is_empty|as_slice)$")
def m_capnp_list(ex, st, fr, path, args, m):
    lk, kind, op = m.group(1), m.group(2), m.group(3)
    r = args[0]
    v = deref_val(r)
    while isinstance(v, Ref):
        r = v
        v = deref_val(r)
    if not isinstance(v, VecObj):
        raise Unsupported(f"capnp list expected, got {v!r}")
    if op == "reborrow":
        return r
    if op == "len":
        return I("u32", len(v.elems))
    if op == "is_empty":
        return I("bool", len(v.elems) == 0)
    if op in ("get", "set"):
        i = ex.concretize(st, args[1], bound=len(v.elems) + 2)
        if i >= len(v.elems):
            raise Panic("capnp list index out of bounds")
        if op == "set":
            v.elems[i] = copy_scalar_or_bytes(args[2])
            return UNIT
        e = v.elems[i]
        if lk == "struct_list":
            return Ref(r.cell, r.path + (("i", i),), None, False, kind == "Builder")
        if lk in ("text_list", "data_list"):
            ref = Ref(r.cell, r.path + (("i", i),), (0, len(e.elems)), lk == "text_list", False)
            return ok(ref) if kind == "Reader" else ok(ref)
        return e
    if op == "iter":
        n = len(v.elems)
        if lk == "struct_list":
            cell = Cell(VecObj([Ref(r.cell, r.path + (("i", i),), None, False, False) for i in range(n)]))
            return IterV("slice_val", ref=Ref(cell, (), (0, n)), pos=0, end=n)
        if lk in ("text_list", "data_list"):
            cell = Cell(VecObj([ok(Ref(r.cell, r.path + (("i", i),), (0, len(v.elems[i].elems)), lk == "text_list", False)) for i in range(n)]))
            return IterV("slice_val", ref=Ref(cell, (), (0, n)), pos=0, end=n)
        cell = Cell(VecObj(list(v.elems), v.ty))
        return IterV("slice_val", ref=Ref(cell, (), (0, n)), pos=0, end=n)
    return NotImplemented


def copy_scalar_or_bytes(v):
    if isinstance(v, (I,)):
        return v
    if isinstance(v, Agg) and v.name == "OrderedFloat":
        return v.fields[0]
    el, lo, hi = seq_of(v)
    return VecObj(list(el[lo:hi]), "u8", is_str=getattr(v, "is_str", False))


@model(r"^<capnp::(struct_list|primitive_list|text_list|data_list)::Reader<.*> as (?:std::iter::)?IntoIterator>::into_iter$")
def m_capnp_list_into_iter(ex, st, fr, path, args, m):
    class _M:
        def __init__(self, g):
            self.g = g

        def group(self, i):
            return self.g[i]
    return m_capnp_list(ex, st, fr, path, args, _M({1: m.group(1), 2: "Reader", 3: "iter"}))


@model(r"^capnp::text::Reader(?:::<.*>)?::(to_string|to_str|len|is_empty|as_bytes)$")
def m_capnp_text(ex, st, fr, path, args, m):
    op = m.group(1)
    el, lo, hi = seq_of(args[0])
    if op == "to_string":
        return ok(VecObj(list(el[lo:hi]), "u8", is_str=True))
    if op == "to_str":
        return ok(args[0])
    if op == "len":
        return I("usize", hi - lo)
    if op == "is_empty":
        return I("bool", hi == lo)
    return args[0]


# the capnp models must win over the generic std models (e.g. IntoIterator for a list reader, which is a reference here)
def _prioritise():
    from . import models as _m
    mine = [e for e in _m.MODELS if getattr(e[1], "__module__", "") == __name__]
    rest = [e for e in _m.MODELS if getattr(e[1], "__module__", "") != __name__]
    _m.MODELS[:] = mine + rest


_prioritise()
