"""Engine A: Kani/CBMC over the compiled crate (scratch copy of /repo's working tree)."""
import os
import re
import subprocess
import time

from . import stage
from .stage import log

KANI_TARGET = os.path.join(stage.SCRATCH, "target-kani")


class HarnessResult:
    def __init__(self, name):
        self.name = name
        self.status = "NOT_RUN"   # SUCCESS | FAILED | TIMEOUT | ERROR | NOT_RUN
        self.time_s = None
        self.checks_total = None
        self.checks_failed = None
        self.covers_sat = None
        self.covers_total = None
        self.failed_checks = []   # list of dicts {desc, file, line, func}
        self.raw = ""

    def to_json(self):
        return {"harness": self.name, "status": self.status, "solver_s": self.time_s,
                "checks": self.checks_total, "failed": self.checks_failed,
                "covers": [self.covers_sat, self.covers_total],
                "failed_checks": self.failed_checks}


def _parse(text, wanted):
    """Parse terse -j output: blocks are prefixed by 'Thread N:' lines."""
    res = {w: HarnessResult(w) for w in wanted}
    cur_by_thread = {}
    cur_thread = None
    blocks = {}   # harness -> text
    for line in text.splitlines():
        m = re.match(r"(?:Thread (\d+): )?Checking harness (\S+?)\.\.\.$", line)
        if m:
            th = m.group(1) or "0"
            short = m.group(2).split("::")[-1]
            cur_by_thread[th] = short
            cur_thread = th
            blocks.setdefault(short, "")
            continue
        m = re.match(r"Thread (\d+):\s*$", line)
        if m:
            cur_thread = m.group(1)
            continue
        if cur_thread is not None and cur_thread in cur_by_thread:
            blocks[cur_by_thread[cur_thread]] += line + "\n"
    for h, b in blocks.items():
        if h not in res:
            res[h] = HarnessResult(h)
        r = res[h]
        r.raw = b
        m = re.search(r"\*\* (\d+) of (\d+) failed", b)
        if m:
            r.checks_failed, r.checks_total = int(m.group(1)), int(m.group(2))
        m = re.search(r"\*\* (\d+) of (\d+) cover properties satisfied", b)
        if m:
            r.covers_sat, r.covers_total = int(m.group(1)), int(m.group(2))
        m = re.search(r"Verification Time: ([0-9.]+)s", b)
        if m:
            r.time_s = float(m.group(1))
        for fm in re.finditer(r"Failed Checks: (.*)\n File: \"([^\"]*)\", line (\d+), in (.*)", b):
            r.failed_checks.append({"desc": fm.group(1).strip(), "file": fm.group(2), "line": int(fm.group(3)),
                                    "func": fm.group(4).strip()})
        if "VERIFICATION:- SUCCESSFUL" in b:
            r.status = "SUCCESS"
        elif "VERIFICATION:- FAILED" in b:
            r.status = "FAILED"
            if "timed out" in b.lower() or "timeout" in b.lower():
                r.status = "TIMEOUT"
            elif not r.failed_checks and not r.checks_failed:
                r.status = "ERROR"   # e.g. CBMC out of memory prints FAILED without failed checks
        elif "timed out" in b.lower():
            r.status = "TIMEOUT"
        else:
            r.status = "ERROR"
    return res


def run(harnesses, per_harness_timeout=300, jobs=16, overall_timeout=3600):
    """Build (incrementally) and run the named harnesses.  Returns (results, info)."""
    tree, th, notes = stage.stage_kani()
    info = {"tree_hash": th, "notes": notes, "build_error": None}
    results = {h: HarnessResult(h) for h in harnesses}
    if not harnesses:
        return results, info
    with stage.Lock("kani-run"):
        cmd = ["cargo", "kani", "-Z", "stubbing", "-Z", "unstable-options",
               "--harness-timeout", f"{per_harness_timeout}s", "-j", str(jobs), "--output-format", "terse",
               "--target-dir", KANI_TARGET, "--exact"]
        from . import replay
        for h in harnesses:
            full = replay.harness_fn_path(h)
            cmd += ["--harness", full[len("crate::"):] if full else h]
        t0 = time.time()
        logp = os.path.join(stage.SCRATCH, f"kani_{os.getpid()}.log")
        with open(logp, "w") as lf:
            try:
                r = subprocess.run(cmd, cwd=tree, env=stage.ENV, stdout=lf, stderr=subprocess.STDOUT,
                                   timeout=overall_timeout)
                rc = r.returncode
            except subprocess.TimeoutExpired:
                rc = -9
                subprocess.run(["pkill", "-9", "-f", "cbmc"], capture_output=True)
        text = open(logp, errors="replace").read()
        info["wall_s"] = time.time() - t0
        info["log"] = logp
    if "Checking harness" not in text:
        errs = [l for l in text.splitlines() if l.startswith("error")]
        info["build_error"] = "\n".join(errs[:20]) or text[-2000:]
        return results, info
    parsed = _parse(text, harnesses)
    for h in harnesses:
        results[h] = parsed.get(h, results[h])
    # harnesses that never showed up: Kani did not find them (renamed/removed kernel => build-level problem)
    missing = [h for h in harnesses if results[h].status == "NOT_RUN"]
    if missing:
        info["missing"] = missing
    return results, info


def _full(h):
    from . import replay
    full = replay.harness_fn_path(h)
    return full[len("crate::"):] if full else h


def playback_values(harness, timeout=600):
    """Re-run one failing harness with concrete playback; returns list of byte lists (one per kani::any())."""
    tree, th, notes = stage.stage_kani()
    cmd = ["cargo", "kani", "-Z", "stubbing", "-Z", "unstable-options", "-Z", "concrete-playback",
           "--concrete-playback=print", "--harness-timeout", f"{timeout}s",
           "--target-dir", KANI_TARGET, "--exact", "--harness", _full(harness)]
    with stage.Lock("kani-run"):
        r = subprocess.run(cmd, cwd=tree, env=stage.ENV, capture_output=True, text=True, timeout=timeout + 600)
    out = r.stdout + r.stderr
    sets = []
    for m in re.finditer(r"let concrete_vals: Vec<Vec<u8>> = vec!\[(.*?)\];\s*kani::concrete_playback_run", out, re.S):
        vals = []
        for vm in re.finditer(r"vec!\[([0-9, ]*)\]", m.group(1)):
            s = vm.group(1).strip()
            vals.append([int(x) for x in s.split(",") if x.strip()] if s else [])
        sets.append(vals)
    return sets, out
